#!/usr/bin/env python3
"""Contract-based deductive verification driver for ldclabs/anda-db.

Usage:  ./check <PROPERTY_ID> [quick|thorough]
        ./check <PROPERTY_ID> --replay <path>
        ./check --list

Exit codes: 0 = every obligation discharged, 1 = VIOLATION (refuted obligation),
2 = UNDECIDED (anchor lost, build failure, timeout, vacuity, ...) — never an alarm.

See /verif/DESIGN.md §2 for the design.  Python stdlib only.
"""
import difflib
import hashlib
import json
import os
import re
import shutil
import signal
import subprocess
import sys
import threading
import time
import tomllib

VERIF = os.path.dirname(os.path.dirname(os.path.abspath(__file__)))
REPO = os.environ.get("VERIF_REPO", "/repo")
EVID = os.environ.get("VERIF_EVIDENCE_DIR") or os.path.join(VERIF, "evidence")
REPLAYS = os.path.join(os.environ["VERIF_EVIDENCE_DIR"], "replays") if os.environ.get("VERIF_EVIDENCE_DIR") else os.path.join(VERIF, "replays")
UNITS_DIR = os.path.join(VERIF, "units")
KNOWN = os.path.join(VERIF, "known_findings.json")
RSS_LIMIT_KB = int(os.environ.get("VERIF_RSS_LIMIT_GB", "20")) * 1024 * 1024
JOBS = int(os.environ.get("VERIF_JOBS", "8"))

KANI_FLAGS = ["-Z", "function-contracts", "-Z", "stubbing", "-Z", "unstable-options"]


class Undecided(Exception):
    pass


def log(msg):
    print(msg, flush=True)


# --------------------------------------------------------------------------
# scratch copy + overlay
# --------------------------------------------------------------------------

def repo_files():
    """All files of /repo's current working tree except target/ and .git/."""
    out = {}
    for root, dirs, files in os.walk(REPO):
        rel = os.path.relpath(root, REPO)
        if rel == ".":
            dirs[:] = [d for d in dirs if d not in ("target", ".git")]
        for f in files:
            p = os.path.join(root, f)
            r = os.path.normpath(os.path.join(rel, f))
            if os.path.islink(p):
                continue
            with open(p, "rb") as fh:
                out[r] = fh.read()
    return out


class Scratch:
    """A fresh copy of /repo's working tree outside /repo and /verif."""

    def __init__(self, tag):
        keep = os.environ.get("VERIF_SCRATCH")
        self.keep = bool(keep)
        self.root = keep or "/var/tmp/verif-%s-%d" % (tag, os.getpid())
        self.src = os.path.join(self.root, "src")
        self.target = os.path.join(self.root, "target")
        self.work = os.path.join(self.root, "work")
        os.makedirs(self.src, exist_ok=True)
        os.makedirs(self.work, exist_ok=True)

    def sync(self, desired):
        """Make self.src hold exactly `desired` (relpath -> bytes); only touch
        files whose content changes so cargo fingerprints stay valid."""
        existing = set()
        for root, dirs, files in os.walk(self.src):
            for f in files:
                existing.add(os.path.relpath(os.path.join(root, f), self.src))
        for rel in existing - set(desired):
            os.remove(os.path.join(self.src, rel))
        for rel, data in desired.items():
            p = os.path.join(self.src, rel)
            if rel in existing:
                with open(p, "rb") as fh:
                    if fh.read() == data:
                        continue
            os.makedirs(os.path.dirname(p), exist_ok=True)
            with open(p, "wb") as fh:
                fh.write(data)

    def cleanup(self):
        if not self.keep:
            shutil.rmtree(self.root, ignore_errors=True)

    def env(self):
        e = dict(os.environ)
        e["CARGO_NET_OFFLINE"] = "true"
        e["CARGO_TARGET_DIR"] = self.target
        e.pop("RUSTFLAGS", None)
        return e


def find_anchor(text, pattern, what):
    """Line index (0-based) of the unique line matching the anchored regex."""
    rx = re.compile(pattern)
    hits = [i for i, l in enumerate(text.split("\n")) if rx.search(l)]
    if len(hits) != 1:
        raise Undecided("ANCHOR-LOST %s: /%s/ matched %d lines" % (what, pattern, len(hits)))
    return hits[0]


def apply_overlay(files, units, scratch_src):
    """Add-only overlay: contract attributes above anchored fns, one child-module
    line appended per unit. Returns {unit_id: {fn: 'file:line'}}."""
    anchors = {}
    edits = {}  # rel -> list of (line_index, [lines to insert])
    appends = {}
    for u in units:
        if u["engine"] != "kani":
            continue
        anchors[u["id"]] = {}
        for fn in u.get("function", []):
            rel = fn.get("file", u["host"])
            if rel not in files:
                raise Undecided("ANCHOR-LOST %s: file %s missing" % (u["id"], rel))
            text = files[rel].decode()
            idx = find_anchor(text, fn["anchor"], "%s fn %s" % (u["id"], fn["name"]))
            anchors[u["id"]][fn["name"]] = "%s:%d" % (rel, idx + 1)
            attrs = fn.get("attrs", [])
            if attrs:
                lines = text.split("\n")
                indent = re.match(r"\s*", lines[idx]).group(0)
                ins = ["%s#[cfg_attr(kani, %s)]" % (indent, a) for a in attrs]
                edits.setdefault(rel, []).append((idx, ins))
        if u.get("overlay"):
            ov_rel = os.path.join("verif_overlay", os.path.basename(u["overlay"]))
            with open(os.path.join(VERIF, u["overlay"]), "rb") as fh:
                files[ov_rel] = fh.read()
            if u.get("extract"):
                files[ov_rel] = fill_extracts(files[ov_rel].decode(), u, files, anchors).encode()
            for extra in u.get("overlay_extra", []):
                with open(os.path.join(VERIF, extra), "rb") as fh:
                    files[os.path.join("verif_overlay", os.path.basename(extra))] = fh.read()
            line = '#[cfg(kani)] #[path = "%s"] mod %s;' % (
                os.path.join(scratch_src, ov_rel), u["modname"])
            appends.setdefault(u["host"], [])
            if line not in appends[u["host"]]:
                appends[u["host"]].append(line)
    for rel, lst in edits.items():
        lines = files[rel].decode().split("\n")
        for idx, ins in sorted(lst, key=lambda t: -t[0]):
            lines[idx:idx] = ins
        files[rel] = "\n".join(lines).encode()
    for rel, lst in appends.items():
        if rel not in files:
            raise Undecided("ANCHOR-LOST host file %s missing" % rel)
        t = files[rel].decode()
        if not t.endswith("\n"):
            t += "\n"
        t += "\n// ---- verification overlay (cfg(kani) only; add-only) ----\n" + "\n".join(lst) + "\n"
        files[rel] = t.encode()
    return anchors


def overlay_diff(orig, new, scratch_src):
    out = []
    for rel in sorted(new):
        a = orig.get(rel)
        b = new[rel]
        if a == b:
            continue
        if a is None:
            out.append("+++ scratch/%s (new file, sha256 %s; source under /verif/contracts)" % (rel, hashlib.sha256(b).hexdigest()[:16]))
            continue
        al = a.decode(errors="replace").splitlines() if a is not None else []
        bl = b.decode(errors="replace").splitlines()
        out.extend(difflib.unified_diff(al, bl, "repo/" + rel, "scratch/" + rel, lineterm="", n=1))
    text = "\n".join(out).replace(scratch_src, "$SCRATCH/src") + "\n"
    removed = [l for l in out if l.startswith("-") and not l.startswith("---")]
    return text, len(removed)


# --------------------------------------------------------------------------
# process running with timeout + RSS watchdog
# --------------------------------------------------------------------------

def _descendants(pid):
    out = []
    try:
        kids = subprocess.run(["pgrep", "-P", str(pid)], capture_output=True, text=True).stdout.split()
    except Exception:
        kids = []
    for k in kids:
        out.append(int(k))
        out.extend(_descendants(int(k)))
    return out


def _rss_kb(pid):
    try:
        with open("/proc/%d/status" % pid) as fh:
            for l in fh:
                if l.startswith("VmRSS:"):
                    return int(l.split()[1])
    except Exception:
        pass
    return 0


def run(cmd, cwd, env, timeout_s, logfile):
    """Run cmd with wall-clock timeout and an RSS watchdog on every descendant.
    Returns (rc, output, note) where note in (None,'timeout','oom')."""
    t0 = time.time()
    with open(logfile, "w") as lf:
        lf.write("$ " + " ".join(cmd) + "\n")
        lf.flush()
        p = subprocess.Popen(cmd, cwd=cwd, env=env, stdout=lf, stderr=subprocess.STDOUT,
                             start_new_session=True)
        note = [None]
        stop = threading.Event()

        def watch():
            while not stop.wait(2.0):
                if time.time() - t0 > timeout_s:
                    note[0] = "timeout"
                    try:
                        os.killpg(p.pid, signal.SIGKILL)
                    except Exception:
                        pass
                    return
                for d in _descendants(p.pid):
                    if _rss_kb(d) > RSS_LIMIT_KB:
                        # kill only the offending solver; Kani reports that harness as failed
                        note[0] = "oom"
                        try:
                            os.kill(d, signal.SIGKILL)
                        except Exception:
                            pass

        th = threading.Thread(target=watch, daemon=True)
        th.start()
        rc = p.wait()
        stop.set()
        th.join()
    with open(logfile, errors="replace") as fh:
        out = fh.read()
    return rc, out, note[0]


# --------------------------------------------------------------------------
# units
# --------------------------------------------------------------------------

def load_property(pid):
    path = os.path.join(UNITS_DIR, pid + ".toml")
    if not os.path.exists(path):
        raise SystemExit("no unit file for property %s (%s)" % (pid, path))
    with open(path, "rb") as fh:
        d = tomllib.load(fh)
    assert d["property"] == pid
    # units shared with another property: same template / extraction, obligations renamed
    for inc in d.get("include", []):
        with open(os.path.join(UNITS_DIR, inc["property"] + ".toml"), "rb") as fh:
            other = tomllib.load(fh)
        src = next(u for u in other["unit"] if u["id"] == inc["unit"])
        text = json.dumps(src).replace(inc["unit"] + ".", inc["as"] + ".").replace('"id": "%s"' % inc["unit"], '"id": "%s"' % inc["as"])
        u = json.loads(text)
        u["shared_with"] = inc["unit"]
        d.setdefault("unit", []).append(u)
    for u in d.get("unit", []):
        u.setdefault("function", [])
        u.setdefault("harness", [])
        for h in u["harness"]:
            h.setdefault("tier", "quick")
            h.setdefault("level", "P")
            h.setdefault("bound", "")
            h.setdefault("timeout_s", 300)
            h.setdefault("expect_covers", ["reach"])
            h.setdefault("panic_free", False)
    return d


def tier_units(prop, tier):
    """Units with the harnesses selected for this tier."""
    out = []
    for u in prop.get("unit", []):
        u = dict(u)
        if u.get("tier", "quick") == "thorough" and tier != "thorough":
            continue
        u["harness"] = [h for h in u["harness"] if h["tier"] == "quick" or tier == "thorough"]
        # development aid (calibrating one harness): never set by a registered command;
        # declared obligations of the skipped harnesses then come out UNDECIDED
        if os.environ.get("VERIF_DEV_HARNESS"):
            u["harness"] = [h for h in u["harness"] if re.search(os.environ["VERIF_DEV_HARNESS"], h["name"])]
        out.append(u)
    return out


# --------------------------------------------------------------------------
# Kani engine
# --------------------------------------------------------------------------

OBL_RX = re.compile(r"OBL:([A-Za-z0-9_.]+)")
POST_RX = re.compile(r"(verif_[a-z0-9_]+)::(?:post|pre)_([a-z0-9_]+)\s*\(")
COVER_RX = re.compile(r"COVER:([A-Za-z0-9_.]+)")


def obligations_of_check(desc, mod2unit):
    names = set(OBL_RX.findall(desc))
    for mod, nm in POST_RX.findall(desc.replace("\n", " ")):
        if mod in mod2unit:
            names.add("%s.%s" % (mod2unit[mod], nm))
    return names


def kani_run_package(scratch, cwd, package, harnesses, tier, logdir, tag, extra_flags=None, max_jobs=0):
    """One `cargo kani` invocation; returns (json_or_None, output, note, wall)."""
    jpath = os.path.join(scratch.work, "kani-%s.json" % tag)
    if os.path.exists(jpath):
        os.remove(jpath)
    tmo = max(h["timeout_s"] for h in harnesses)
    cmd = ["cargo", "kani"]
    if package:
        cmd += ["-p", package]
    cmd += KANI_FLAGS
    for h in harnesses:
        cmd += ["--harness", h["name"]]
    jobs = min(JOBS, max(1, len(harnesses)))
    if max_jobs:
        jobs = min(jobs, max_jobs)
    cmd += ["-j", str(jobs), "--output-format", "terse",
            "--export-json", jpath, "--harness-timeout", "%ds" % tmo]
    cmd += (extra_flags or [])
    t0 = time.time()
    logfile = os.path.join(logdir, "kani-%s.log" % tag)
    # build (~60 s cold) + verification; the wall limit covers both
    rc, out, note = run(cmd, cwd, scratch.env(), 600 + tmo * (1 + len(harnesses) // JOBS), logfile)
    wall = time.time() - t0
    data = None
    if os.path.exists(jpath):
        try:
            with open(jpath) as fh:
                data = json.load(fh)
        except Exception:
            data = None
    return data, out, note, wall, " ".join(cmd).replace(scratch.root, "$SCRATCH")


class Result:
    """Accumulated outcome of a property check."""

    def __init__(self):
        self.obl = {}          # name -> dict(status, unit, harnesses[], level, bound, time_s, backend)
        self.undecided = []    # reasons
        self.refuted = []      # dict(obligation, unit, harness, package, descs, engine)
        self.covers = {}       # harness -> {name: status}
        self.cover_lost = []
        self.harness_stats = {}
        self.kani_checks_total = 0
        self.cmds = []
        self.canary = {}
        self.verus = {}
        self.solver_time_s = 0.0
        self.notes = []
        self.mutants = None


def short(h):
    return h.split("::")[-1]


def kani_collect(data, out, note, units, harnesses, res, package):
    """Map Kani's per-check JSON to named obligations."""
    mod2unit = {u["modname"]: u["id"] for u in units if u.get("modname")}
    hmap = {}
    for u in units:
        for h in u["harness"]:
            hmap[h["name"]] = (u, h)
    if data is None:
        m = re.search(r"(error(\[E\d+\])?: .*)", out)
        why = m.group(1)[:200] if m else "no result file"
        if note:
            why = note + "; " + why
        res.undecided.append("kani[%s]: no results (%s)" % (package, why))
        return
    results = {short(r["harness_id"]): r for r in data.get("verification_results", {}).get("results", [])}
    cb = {short(c["harness_id"]): c for c in data.get("cbmc", [])}
    for hname, (u, h) in hmap.items():
        if h.get("canary"):
            continue
        r = results.get(hname)
        if r is None:
            res.undecided.append("%s: harness %s produced no result (%s)" % (u["id"], hname, note or "not run / build error"))
            continue
        checks = r.get("checks", [])
        stats = (cb.get(hname) or {}).get("cbmc_stats") or {}
        st = float(stats.get("runtime_decision_procedure_s") or 0.0) + float(stats.get("runtime_symex_s") or 0.0)
        res.solver_time_s += st
        res.harness_stats[hname] = {
            "unit": u["id"], "status": r.get("status"), "duration_s": r.get("duration_ms", 0) / 1000.0,
            "checks": len(checks), "solver": ((cb.get(hname) or {}).get("configuration") or {}).get("solver") or "cadical",
            "solver_s": round(float(stats.get("runtime_decision_procedure_s") or 0.0), 3),
            "symex_s": round(float(stats.get("runtime_symex_s") or 0.0), 3),
            "level": h["level"], "bound": h["bound"],
        }
        res.kani_checks_total += len(checks)
        if not checks:
            res.undecided.append("%s: harness %s has no checks (status %s; timeout/OOM/crash?)" % (u["id"], hname, r.get("status")))
            continue
        seen = {}
        unwind_fail = False
        other_fail = []
        undetermined = False
        covers = {}
        for c in checks:
            desc = c.get("description", "")
            status = c.get("status")
            cat = c.get("category")
            if cat == "cover":
                m = COVER_RX.search(desc)
                if m:
                    covers[m.group(1)] = status
                continue
            names = obligations_of_check(desc, mod2unit)
            if status == "Undetermined":
                undetermined = True
            if names:
                for n in names:
                    seen.setdefault(n, []).append((status, desc))
                continue
            if status == "Failure":
                if cat == "unwind":
                    unwind_fail = True
                else:
                    other_fail.append("%s [%s] in %s" % (desc.replace("\n", " ")[:120], cat, c.get("function", "")[:80]))
        res.covers[hname] = covers
        declared = set(h["obligations"])
        if unwind_fail:
            res.undecided.append("%s: harness %s: unwinding assertion failed (bound too small)" % (u["id"], hname))
            continue
        pf = {u["id"] + ".panic_free"} if h["panic_free"] else set()
        for n in declared - set(seen) - pf:
            res.undecided.append("%s: harness %s: declared obligation %s produced no check (vacuous)" % (u["id"], hname, n))
        for n in set(seen) - declared:
            res.undecided.append("%s: harness %s: undeclared obligation %s in results" % (u["id"], hname, n))
        for n, lst in seen.items():
            if n not in declared:
                continue
            o = res.obl.setdefault(n, {"unit": u["id"], "status": "discharged", "harnesses": [],
                                       "level": h["level"], "bound": h["bound"], "engine": "kani",
                                       "backend": "CBMC 6.11 / " + res.harness_stats[hname]["solver"],
                                       "time_s": 0.0, "instances": 0, "tier": h["tier"]})
            o["harnesses"].append(hname)
            o["time_s"] = round(o["time_s"] + res.harness_stats[hname]["duration_s"], 3)
            if h["level"] == "B":
                o["level"] = "B"
                if h["bound"] and h["bound"] not in o["bound"]:
                    o["bound"] = (o["bound"] + "; " if o["bound"] else "") + h["bound"]
            sts = [s for s, _ in lst]
            o["instances"] += len(sts)
            if "Failure" in sts:
                o["status"] = "refuted"
                res.refuted.append({"obligation": n, "unit": u["id"], "harness": hname, "package": package,
                                    "engine": "kani", "descs": [d for s, d in lst if s == "Failure"][:3],
                                    "cwd_rel": u.get("_cwd_rel", "")})
            elif any(s not in ("Success", "Unreachable") for s in sts):
                if o["status"] == "discharged":
                    o["status"] = "undecided"
                res.undecided.append("%s: obligation %s status %s in %s" % (u["id"], n, sts, hname))
            o["n_success"] = o.get("n_success", 0) + sum(1 for x in sts if x == "Success")
        if other_fail:
            if h["panic_free"]:
                n = u["id"] + ".panic_free"
                if n in declared:
                    res.obl.setdefault(n, {"unit": u["id"], "harnesses": [hname], "level": h["level"], "bound": h["bound"],
                                           "engine": "kani", "backend": "CBMC 6.11", "time_s": 0.0, "instances": 1,
                                           "tier": h["tier"]})["status"] = "refuted"
                    res.refuted.append({"obligation": n, "unit": u["id"], "harness": hname, "package": package,
                                        "engine": "kani", "descs": other_fail[:3], "cwd_rel": u.get("_cwd_rel", "")})
            else:
                res.undecided.append("%s: harness %s: non-contract check failed: %s" % (u["id"], hname, "; ".join(other_fail[:3])))
        elif h["panic_free"]:
            n = u["id"] + ".panic_free"
            if n in declared:
                o = res.obl.setdefault(n, {"unit": u["id"], "status": "discharged", "harnesses": [], "level": h["level"],
                                           "bound": h["bound"], "engine": "kani", "backend": "CBMC 6.11 / cadical",
                                           "time_s": 0.0, "instances": 0, "tier": h["tier"]})
                o["harnesses"].append(hname)
                o["instances"] += len(checks)
        if undetermined and not other_fail:
            res.undecided.append("%s: harness %s: some checks undetermined" % (u["id"], hname))
        for cv in h["expect_covers"]:
            if covers.get(cv) != "Satisfied":
                if cv == "reach":
                    res.undecided.append("%s: harness %s: reachability cover not satisfied (vacuous)" % (u["id"], hname))
                else:
                    res.cover_lost.append("%s/%s:%s=%s" % (u["id"], hname, cv, covers.get(cv)))
    # unreachable obligations are vacuous
    # canary
    for hname, (u, h) in hmap.items():
        if not h.get("canary"):
            continue
        r = results.get(hname)
        ok = bool(r) and r.get("status") == "Failure" and any(
            c.get("status") == "Failure" and "CANARY" in c.get("description", "") for c in r.get("checks", []))
        res.canary[package + "::" + hname] = "failed-as-required" if ok else "DID-NOT-FAIL"
        if not ok:
            res.undecided.append("canary %s did not fail: verifier run is vacuous" % hname)


CANARY_RS = """//! Canary: an assertion that MUST be refuted; if it verifies, the run is vacuous.
#[kani::proof]
fn verif_canary_must_fail() {
    let x: u8 = kani::any();
    assert!(x != 7, "CANARY");
}
"""


def run_kani_units(scratch, units, tier, res, logdir):
    """In-crate Kani units, grouped by package."""
    by_pkg = {}
    for u in units:
        if u["engine"] == "kani":
            # `max_jobs`: memory-heavy units (several GB of CBMC per harness) run in a
            # group of their own with a capped -j, so that a run never exhausts RAM
            by_pkg.setdefault((u["package"], tuple(u.get("cbmc_args", [])), int(u.get("max_jobs", 0))), []).append(u)
    for (pkg, cargs, max_jobs), us in by_pkg.items():
        hs = [h for u in us for h in u["harness"]]
        if not hs:
            continue
        extra = (["--cbmc-args"] + list(cargs)) if cargs else None
        tag = pkg + ("-" + hashlib.sha256(" ".join(cargs).encode()).hexdigest()[:6] if cargs else "") + ("-j%d" % max_jobs if max_jobs else "")
        data, out, note, wall, cmd = kani_run_package(scratch, scratch.src, pkg, hs, tier, logdir, tag, extra, max_jobs)
        res.cmds.append(cmd)
        kani_collect(data, out, note, us, hs, res, pkg)
        log("  kani -p %s: %d harnesses, wall %.0fs%s" % (pkg, len(hs), wall, " (" + note + ")" if note else ""))


# --------------------------------------------------------------------------
# slice extraction (shared by standalone-Kani and Verus units)
# --------------------------------------------------------------------------

def extract_between(text, start_rx, end_rx, what, include_end=True, start_skip=0, end_extra=0, inner_start=None):
    """Verbatim run of lines from the unique line matching start_rx (or `start_skip`
    lines below it) through the first following line matching end_rx. With
    `inner_start`, start_rx only names the enclosing item and the slice starts at
    the first line below it that matches inner_start."""
    lines = text.split("\n")
    s = find_anchor(text, start_rx, what + " (slice start)")
    if inner_start:
        irx = re.compile(inner_start)
        for j in range(s, len(lines)):
            if irx.search(lines[j]):
                s = j
                break
        else:
            raise Undecided("ANCHOR-LOST %s: inner slice start /%s/ not found" % (what, inner_start))
    s += start_skip
    erx = re.compile(end_rx)
    for j in range(s, len(lines)):
        if erx.search(lines[j]):
            e = j
            break
    else:
        raise Undecided("ANCHOR-LOST %s: slice end /%s/ not found" % (what, end_rx))
    e += end_extra
    return "\n".join(lines[s:(e + 1 if include_end else e)]), s + 1, e + 1


def match_brace(text, open_idx):
    """Index of the brace closing text[open_idx] == '{' (skips strings, chars, comments)."""
    i = open_idx
    depth = 0
    n = len(text)
    while i < n:
        c = text[i]
        if text.startswith("//", i):
            j = text.find("\n", i)
            i = n if j < 0 else j
            continue
        if text.startswith("/*", i):
            j = text.find("*/", i + 2)
            i = n if j < 0 else j + 2
            continue
        if c == '"':
            i += 1
            while i < n and text[i] != '"':
                i += 2 if text[i] == "\\" else 1
            i += 1
            continue
        if c == "'":
            # char literal or lifetime
            m = re.match(r"'(\\.|[^\\'])'", text[i:])
            if m:
                i += m.end()
                continue
        if c == "{":
            depth += 1
        elif c == "}":
            depth -= 1
            if depth == 0:
                return i
        i += 1
    raise Undecided("brace matching failed")


def extract_fn(text, anchor_rx, what):
    """(signature_text, body_text_without_outer_braces, line_no) of the fn whose
    signature starts on the unique line matching anchor_rx."""
    lines = text.split("\n")
    s = find_anchor(text, anchor_rx, what)
    off = sum(len(l) + 1 for l in lines[:s])
    ob = text.index("{", off)
    # skip over `where` clauses etc: the first '{' after the signature's ')' at depth 0
    depth = 0
    i = off
    while i < len(text):
        ch = text[i]
        if ch in "(<[":
            depth += 1 if ch != "<" else 0
        elif ch in ")]":
            depth -= 1
        elif ch == "{" and depth == 0:
            ob = i
            break
        i += 1
    cb = match_brace(text, ob)
    return text[off:ob].rstrip(), text[ob + 1:cb], s + 1



ALL_REWRITES = []


def fill_extracts(tpl, u, files, anchors, rewrites_applied=None, rewrite_key="rewrite"):
    """Replace every /*@EXTRACT:name@*/ marker of a template by text copied verbatim
    from /repo's current tree (statement slice, whole fn, or fn body)."""
    anchors.setdefault(u["id"], {})
    for ex in u.get("extract", []):
        rel = ex["file"]
        if rel not in files:
            raise Undecided("ANCHOR-LOST %s: file %s missing" % (u["id"], rel))
        text = files[rel].decode()
        what = u["id"] + "/" + ex["name"]
        if ex["kind"] == "slice":
            body, l0, l1 = extract_between(text, ex["start"], ex["end"], what, not ex.get("end_exclusive", False), ex.get("start_skip", 0), ex.get("end_extra", 0), ex.get("inner_start"))
            anchors[u["id"]][ex["name"]] = "%s:%d-%d" % (rel, l0, l1)
        elif ex["kind"] == "fn":
            sig, body_, l0 = extract_fn(text, ex["anchor"], what)
            body = sig + " {" + body_ + "}"
            anchors[u["id"]][ex["name"]] = "%s:%d" % (rel, l0)
        elif ex["kind"] == "fn_body":
            sig, body, l0 = extract_fn(text, ex["anchor"], what)
            anchors[u["id"]][ex["name"]] = "%s:%d" % (rel, l0)
        else:
            raise Undecided("unknown extract kind %s" % ex["kind"])
        for rw in ex.get(rewrite_key, []):
            body, n = re.subn(rw["from"], rw["to"], body)
            rec = {"unit": u["id"], "extract": ex["name"], "from": rw["from"], "to": rw["to"], "applied": n,
                   "reason": rw.get("reason", "")}
            ALL_REWRITES.append(rec)
            if rewrites_applied is not None:
                rewrites_applied.append(rec)
            if n == 0 and rw.get("required", False):
                raise Undecided("ANCHOR-LOST %s: rewrite /%s/ no longer applies" % (u["id"], rw["from"]))
        marker = "/*@EXTRACT:%s@*/" % ex["name"]
        if marker not in tpl:
            raise Undecided("template of %s lacks marker %s" % (u["id"], marker))
        tpl = tpl.replace(marker, body)
    return tpl

# --------------------------------------------------------------------------
# standalone Kani units (statement slices / whole fns in a dependency-free crate)
# --------------------------------------------------------------------------

def build_standalone(scratch, u, files, anchors):
    """Generate a one-file crate from a template with verbatim extractions."""
    cdir = os.path.join(scratch.src, "verif_standalone", u["id"].replace(".", "_"))
    os.makedirs(os.path.join(cdir, "src"), exist_ok=True)
    with open(os.path.join(VERIF, u["template"])) as fh:
        tpl = fh.read()
    tpl = fill_extracts(tpl, u, files, anchors)
    with open(os.path.join(cdir, "src", "lib.rs"), "w") as fh:
        fh.write(tpl)
    with open(os.path.join(cdir, "Cargo.toml"), "w") as fh:
        fh.write('[package]\nname = "%s"\nversion = "0.0.0"\nedition = "2024"\n\n[lib]\npath = "src/lib.rs"\n\n'
                 '[workspace]\n\n[lints.rust]\nunexpected_cfgs = { level = "allow" }\n' % ("verif_" + u["id"].replace(".", "_").lower()))
    return cdir, tpl


def run_standalone_units(scratch, units, tier, res, logdir, files, anchors, extracted):
    for u in units:
        if u["engine"] != "kani_standalone":
            continue
        if not u["harness"]:
            continue
        cdir, text = build_standalone(scratch, u, files, anchors)
        extracted[u["id"]] = text
        u["_cwd_rel"] = os.path.relpath(cdir, scratch.src)
        u.setdefault("modname", "verif_" + u["id"].replace(".", "_").lower())
        extra = (["--cbmc-args"] + list(u["cbmc_args"])) if u.get("cbmc_args") else None
        data, out, note, wall, cmd = kani_run_package(scratch, cdir, None, u["harness"], tier, logdir,
                                                      u["id"].replace(".", "_"), extra)
        res.cmds.append(cmd)
        kani_collect(data, out, note, [u], u["harness"], res, u["id"])
        log("  kani standalone %s: %d harnesses, wall %.0fs%s" % (u["id"], len(u["harness"]), wall, " (" + note + ")" if note else ""))


# --------------------------------------------------------------------------
# Verus engine
# --------------------------------------------------------------------------

def build_verus(scratch, u, files, anchors):
    with open(os.path.join(VERIF, u["template"])) as fh:
        tpl = fh.read()
    rewrites_applied = []
    tpl = fill_extracts(tpl, u, files, anchors, rewrites_applied)
    path = os.path.join(scratch.work, u["id"].replace(".", "_") + ".rs")
    with open(path, "w") as fh:
        fh.write(tpl)
    return path, tpl, rewrites_applied


def run_verus_units(scratch, units, tier, res, logdir, files, anchors, extracted):
    for u in units:
        if u["engine"] != "verus":
            continue
        path, text, rws = build_verus(scratch, u, files, anchors)
        extracted[u["id"]] = text
        rl = u.get("rlimit", 30) * (2 if tier == "thorough" else 1)
        cmd = ["verus", "--edition", "2024", path, "--output-json", "--time", "--rlimit", str(rl), "--multiple-errors", "20"]
        logfile = os.path.join(logdir, "verus-%s.log" % u["id"].replace(".", "_"))
        t0 = time.time()
        rc, out, note = run(cmd, scratch.work, scratch.env(), u.get("timeout_s", 300), logfile)
        wall = time.time() - t0
        res.cmds.append(" ".join(cmd).replace(scratch.root, "$SCRATCH"))
        # stdout JSON is the last {...} block
        js = None
        m = re.search(r"\n(\{\n.*\n\})\s*$", "\n" + out, re.S)
        if m:
            try:
                js = json.loads(m.group(1))
            except Exception:
                js = None
        vr = (js or {}).get("verification-results", {})
        nver, nerr = vr.get("verified"), vr.get("errors")
        smt_ms = (((js or {}).get("times-ms") or {}).get("smt") or {}).get("total", 0)
        res.solver_time_s += (smt_ms or 0) / 1000.0
        res.verus[u["id"]] = {"verified": nver, "errors": nerr, "wall_s": round(wall, 2), "rewrites": rws,
                              "smt_ms": smt_ms, "expected_verified": u.get("expect_verified")}
        log("  verus %s: verified=%s errors=%s wall %.1fs" % (u["id"], nver, nerr, wall))
        obls = u.get("obligation", [])
        if js is None or nver is None or note:
            res.undecided.append("%s: verus gave no verdict (%s)" % (u["id"], note or "no JSON; see log"))
            continue
        # Map each error to an obligation by the text of the failing clause
        errs = re.findall(r"error: ([^\n]*)\n((?:(?!error: |note: |verification results).*\n)*)", out)
        failed = {}
        unknown = []
        for head, body in errs:
            if head.startswith("aborting") or "could not compile" in head:
                continue
            hit = False
            if re.search(r"postcondition not satisfied|invariant not satisfied|invariant .* not|precondition not satisfied|assertion failed|possible arithmetic|possible division|recommendation not met|decreases not", head):
                for o in obls:
                    if any(re.search(p, body) for p in o["match"]):
                        failed.setdefault(o["name"], []).append((head + "\n" + body)[:1500])
                        hit = True
                if not hit and re.search(r"possible arithmetic|possible division|precondition not satisfied", head):
                    # overflow / callee-precondition inside the verbatim body: panic-freedom obligation
                    for o in obls:
                        if o.get("catch_all"):
                            failed.setdefault(o["name"], []).append((head + "\n" + body)[:1500])
                            hit = True
            if not hit:
                unknown.append(head)
        if nerr == 0 and u.get("expect_verified") is not None and nver != u["expect_verified"]:
            res.undecided.append("%s: verus verified %s items, expected %s (vacuity guard)" % (u["id"], nver, u["expect_verified"]))
        if nerr and not failed:
            res.undecided.append("%s: verus reported errors not attributable to an obligation: %s" % (u["id"], "; ".join(unknown)[:300]))
        elif unknown and any("rlimit" in x or "timed out" in x.lower() for x in unknown):
            res.undecided.append("%s: verus resource limit: %s" % (u["id"], "; ".join(unknown)[:200]))
        for o in obls:
            name = o["name"]
            st = "refuted" if name in failed else ("discharged" if (nerr == 0 or failed) and not (nerr and not failed) else "undecided")
            res.obl[name] = {"unit": u["id"], "status": st, "harnesses": [os.path.basename(path)],
                             "level": o.get("level", "P"), "bound": o.get("bound", ""), "engine": "verus",
                             "backend": "Verus 0.2026.09.13 / Z3", "time_s": round(wall, 2), "instances": 1,
                             "tier": "quick"}
            if name in failed:
                res.refuted.append({"obligation": name, "unit": u["id"], "harness": os.path.basename(path),
                                    "package": None, "engine": "verus", "descs": failed[name][:2],
                                    "verus_file": path, "search": u.get("search")})


# --------------------------------------------------------------------------
# replay
# --------------------------------------------------------------------------

_PLAYBACK_CACHE = {}


def kani_playback(scratch, rf, units, logdir):
    """Obtain Kani's counterexample for the refuted obligation and run it natively
    against the real crate. Returns dict(outcome, test, native_output)."""
    u = next(x for x in units if x["id"] == rf["unit"])
    cwd = scratch.src if u["engine"] == "kani" else os.path.join(scratch.src, rf["cwd_rel"])
    tag = rf["obligation"].replace(".", "_")
    ck = (rf["unit"], rf["harness"])
    if ck not in _PLAYBACK_CACHE:
        cmd = ["cargo", "kani"]
        if u["engine"] == "kani":
            cmd += ["-p", u["package"]]
        cmd += KANI_FLAGS + ["-Z", "concrete-playback", "--concrete-playback=print", "--harness", rf["harness"],
                             "--output-format", "terse"]
        if u.get("cbmc_args"):
            cmd += ["--cbmc-args"] + list(u["cbmc_args"])
        rc, out, note = run(cmd, cwd, scratch.env(), int(os.environ.get("VERIF_PLAYBACK_TIMEOUT", "1500")),
                            os.path.join(logdir, "playback-gen-%s.log" % rf["harness"]))
        _PLAYBACK_CACHE[ck] = (out, note)
    out, note = _PLAYBACK_CACHE[ck]
    # all generated tests; prefer the one generated for this obligation's check
    tests = re.findall(r"```\n(/// Test generated for harness.*?)(#\[test\]\nfn (kani_concrete_playback_\w+)\(\) \{.*?\n\})\n```", out, re.S)
    if not tests:
        return {"outcome": "no-counterexample", "detail": "kani produced no concrete playback test (%s)" % (note or "none printed")}
    key = rf["obligation"].split(".")[-1]
    chosen = None
    for head, body, name in tests:
        if ("OBL:" + rf["obligation"]) in head or re.search(r"(post|pre)_%s\s*\(" % re.escape(key), head.replace("\n", " ")):
            chosen = (body, name)
            break
    if chosen is None:
        chosen = (tests[0][1], tests[0][2])
    body, name = chosen
    # append to the scratch copy of the overlay / standalone source
    if u["engine"] == "kani":
        target = os.path.join(scratch.src, "verif_overlay", os.path.basename(u["overlay"]))
    else:
        target = os.path.join(cwd, "src", "lib.rs")
    with open(target) as fh:
        present = ("fn %s(" % name) in fh.read()
    if not present:
        with open(target, "a") as fh:
            fh.write("\n" + body + "\n")
    cmd2 = ["cargo", "kani", "playback", "-Z", "concrete-playback"]
    if u["engine"] == "kani":
        cmd2 += ["-p", u["package"]]
    cmd2 += ["--", name]
    env = scratch.env()
    env["RUST_BACKTRACE"] = "0"
    rc2, out2, note2 = run(cmd2, cwd, env, 1500, os.path.join(logdir, "playback-run-%s.log" % tag))
    decoded = re.findall(r"^\s*// (.*)\n\s*vec!\[", body, re.M)
    m = re.search(r"panicked at ([^\n]*)\n([^\n]*)", out2)
    info = {"test_name": name, "test_source": body, "decoded_values": decoded,
            "native_cmd": " ".join(cmd2),
            "native_panic": (m.group(1).replace(scratch.root, "$SCRATCH") + " :: " + m.group(2)) if m else None}
    if "test result: FAILED" in out2 and m:
        if ("OBL:" + rf["obligation"]) in out2 or rf["obligation"].endswith(".panic_free"):
            info["outcome"] = "confirmed"
        else:
            info["outcome"] = "confirmed-other"
            info["detail"] = "native run failed at a different assertion than the refuted obligation"
    elif "test result: ok" in out2:
        info["outcome"] = "mismatch"
        info["detail"] = "native execution of Kani's counterexample does not fail (CBMC modelling artefact?)"
    else:
        info["outcome"] = "native-run-error"
        info["detail"] = (note2 or "") + out2[-600:]
    return info


def verus_search(scratch, rf, u, seed, logdir):
    """Verus gives no counterexample: execute the extracted function natively
    against its contract on boundary + seeded random inputs (search crate given
    by the unit). Returns info dict."""
    s = rf.get("search")
    if not s:
        return {"outcome": "no-counterexample", "detail": "no native search harness for this unit"}
    cdir = os.path.join(scratch.work, "search_" + u["id"].replace(".", "_"))
    os.makedirs(os.path.join(cdir, "src"), exist_ok=True)
    with open(os.path.join(VERIF, s["template"])) as fh:
        tpl = fh.read()
    files = {k: v for k, v in repo_files().items()}
    for ex in u.get("extract", []):
        text = files[ex["file"]].decode()
        if ex["kind"] == "slice":
            body, _, _ = extract_between(text, ex["start"], ex["end"], u["id"])
        else:
            _, body, _ = extract_fn(text, ex["anchor"], u["id"])
        for rw in ex.get("search_rewrite", []):
            body = re.sub(rw["from"], rw["to"], body)
        tpl = tpl.replace("/*@EXTRACT:%s@*/" % ex["name"], body)
    with open(os.path.join(cdir, "src", "main.rs"), "w") as fh:
        fh.write(tpl)
    with open(os.path.join(cdir, "Cargo.toml"), "w") as fh:
        fh.write('[package]\nname = "verif_search"\nversion = "0.0.0"\nedition = "2024"\n[workspace]\n')
    env = scratch.env()
    env["VERIF_SEED"] = str(seed)
    env["VERIF_OBLIGATION"] = rf["obligation"]
    rc, out, note = run(["cargo", "run", "--release", "--offline", "-q"], cdir, env, 600,
                        os.path.join(logdir, "search-%s.log" % u["id"].replace(".", "_")))
    m = re.search(r"^COUNTEREXAMPLE obligation=(\S+) (.*)$", out, re.M)
    if m and m.group(1) == rf["obligation"]:
        return {"outcome": "confirmed", "decoded_values": [m.group(2)],
                "native_cmd": "cargo run --release (search crate %s, seed %d)" % (s["template"], seed),
                "native_panic": m.group(0)}
    return {"outcome": "no-counterexample", "detail": "native boundary+random search found no failing input: " + out[-300:]}


# --------------------------------------------------------------------------
# assumption scan, evidence, main
# --------------------------------------------------------------------------

SCAN = [
    (r"kani::assume\s*\(", "kani::assume"),
    (r"#\[kani::stub\(", "kani::stub"),
    (r"stub_verified\(", "kani::stub_verified"),
    (r"\badmit\s*\(", "admit()"),
    (r"\bassume\s*\(", "assume()"),
    (r"external_body", "external_body"),
    (r"assume_specification", "assume_specification"),
    (r"external_fn_specification", "external_fn_specification"),
    (r"#\[verifier::external", "verifier::external"),
]


def scan_assumptions(units):
    out = []
    for u in units:
        paths = [u.get("overlay"), u.get("template")] + u.get("overlay_extra", [])
        for p in [x for x in paths if x]:
            with open(os.path.join(VERIF, p)) as fh:
                for i, l in enumerate(fh, 1):
                    if l.lstrip().startswith("//"):
                        continue
                    for rx, nm in SCAN:
                        if nm == "assume()" and "kani::assume" in l:
                            continue
                        if re.search(rx, l):
                            out.append("[scan] %s in %s:%d: %s" % (nm, p, i, l.strip()[:140]))
                            break
    return out


def load_known():
    if os.path.exists(KNOWN):
        with open(KNOWN) as fh:
            return json.load(fh)
    return {"findings": [], "fixed": []}


def matches_known(kf, rf, info):
    if kf.get("obligation") != rf["obligation"]:
        return False
    pat = kf.get("counterexample_class")
    if not pat:
        return True
    blob = json.dumps(info, default=str) + " ".join(rf.get("descs", []))
    return re.search(pat, blob) is not None


def write_evidence(pid, tier, seed, prop, units, res, anchors, diff_hash, removed_lines, wall, violations, assumptions, known_hits, extracted, partial=False):
    complete = {n: o for n, o in res.obl.items() if o["level"] == "P"}
    bounded = {n: o for n, o in res.obl.items() if o["level"] == "B"}
    disc = lambda d: sum(1 for o in d.values() if o["status"] == "discharged")
    funcs = []
    for u in units:
        for fn in u.get("function", []) + [e for e in u.get("extract", [])]:
            nm = fn["name"]
            funcs.append({"unit": u["id"], "function": fn.get("display", nm),
                          "where": anchors.get(u["id"], {}).get(nm, "?"),
                          "form": fn.get("form", u["engine"]), "engine": u["engine"]})
    samples = []
    for n, o in sorted(res.obl.items()):
        samples.append({"obligation": n, "status": o["status"], "level": "complete" if o["level"] == "P" else "bounded",
                        "bound": o["bound"], "engine": o["engine"], "backend": o["backend"],
                        "harnesses": o["harnesses"], "time_s": o["time_s"]})
    statements = {}
    for u in units:
        for k, v in u.get("statement", {}).items():
            statements[k] = v
    for s in samples:
        if s["obligation"] in statements:
            s["statement"] = statements[s["obligation"]]
    cov = {
        "obligations": len(complete),
        "discharged": disc(complete),
        "bounded_obligations": len(bounded),
        "bounded_discharged": disc(bounded),
        "bounded_list": [{"obligation": n, "bound": o["bound"], "status": o["status"]} for n, o in sorted(bounded.items())],
        "checker_cmd": " && ".join(res.cmds) if res.cmds else "(none run)",
        "trusted_base": prop.get("trusted_base", []) + [
            "Kani 0.68.0 / CBMC 6.11.0 / CaDiCaL (bit-precise machine integers and IEEE-754 floats; not sqrt/ln)",
            "Verus 0.2026.09.13 / Z3 (overflow-checked machine integers)",
            "rustc; the add-only overlay injector and the verbatim extractor of vlib/driver.py (diff stored beside this file)",
        ],
        "samples": samples,
        "functions_under_contract": funcs,
        "functions_not_under_contract": prop.get("not_under_contract", []),
        "harnesses": res.harness_stats,
        "verus": res.verus,
        "kani_checks_total": res.kani_checks_total,
        "solver_time_s": round(res.solver_time_s, 3),
        "covers": res.covers,
        "cover_lost": res.cover_lost,
        "canary": res.canary,
        "undecided": res.undecided,
        "mutant_self_test": res.mutants,
        "extraction_rewrites": ALL_REWRITES,
        "refuted": [r["obligation"] for r in res.refuted],
        "known_findings_hit": known_hits,
        "overlay_diff_sha256": diff_hash,
        "overlay_removed_lines": removed_lines,
        "overlay_diff_file": "evidence/%s.overlay.diff" % pid,
        "rule": "one obligation = one named contract clause (kani::ensures / OBL:-tagged assertion / Verus ensures) of a real function; 'obligations' counts only complete (unbounded or full-domain) ones, bounded ones are listed separately with their bound",
        "exhaustive": False,
        "explanation": prop.get("scope", ""),
    }
    ev = {
        "property_id": pid, "tier": tier, "seed": seed, "level": "proof", "coverage": cov,
        "assumptions": assumptions, "wall_s": round(wall, 1), "violations": violations,
    }
    os.makedirs(EVID, exist_ok=True)
    # a --unit run covers only part of the property: never overwrite the property's evidence with it
    fname = pid + (".partial.json" if partial else ".json")
    with open(os.path.join(EVID, fname), "w") as fh:
        json.dump(ev, fh, indent=1, sort_keys=False)
        fh.write("\n")


def check_declared(units, res):
    """Every obligation declared for the tier must have a verdict (non-zero count)."""
    declared = set()
    for u in units:
        for h in u["harness"]:
            if not h.get("canary"):
                declared.update(h["obligations"])
        for o in u.get("obligation", []):
            declared.add(o["name"])
    if not declared:
        res.undecided.append("no obligations declared for this tier (vacuous)")
    for n, o in res.obl.items():
        if o["engine"] == "kani" and o["status"] == "discharged" and not n.endswith(".panic_free") and o.get("n_success", 0) == 0:
            o["status"] = "unreachable"
            res.undecided.append("obligation %s unreachable in every instance (vacuous)" % n)
    for n in declared - set(res.obl):
        res.undecided.append("declared obligation %s has no verdict" % n)
    # overlay text must mention every harness-form obligation (keeps units.toml honest)
    return declared


def main(argv):
    if len(argv) >= 2 and argv[1] == "--list":
        for f in sorted(os.listdir(UNITS_DIR)):
            print(f[:-5])
        return 0
    if len(argv) < 2:
        print(__doc__)
        return 2
    pid = argv[1]
    tier = os.environ.get("VERIF_TIER", "quick")
    replay_path = None
    only_units = None
    args = argv[2:]
    while args:
        a = args.pop(0)
        if a in ("quick", "thorough"):
            tier = a
        elif a == "--replay":
            replay_path = args.pop(0)
        elif a == "--unit":
            only_units = set(args.pop(0).split(","))
        else:
            raise SystemExit("unknown argument " + a)
    seed = int(os.environ.get("VERIF_SEED", "0") or 0)
    t0 = time.time()
    prop = load_property(pid)
    units = tier_units(prop, tier)
    if only_units:
        units = [u for u in units if u["id"] in only_units]
    if replay_path:
        return do_replay(pid, replay_path, prop)
    scratch = Scratch(pid)
    logdir = os.path.join(scratch.work, "logs")
    os.makedirs(logdir, exist_ok=True)
    res = Result()
    anchors = {}
    extracted = {}
    diff_hash, removed = "", 0
    violations = 0
    known_hits = []
    rc = 0
    try:
        log("[%s/%s] scratch copy of %s -> %s" % (pid, tier, REPO, scratch.root))
        orig = repo_files()
        files = dict(orig)
        try:
            # canary unit per package
            pkgs = sorted({u["package"] for u in units if u["engine"] == "kani"})
            can_units = []
            for pkg in pkgs:
                host = next(u for u in units if u["engine"] == "kani" and u["package"] == pkg)
                lib = re.sub(r"/src/.*$", "/src/lib.rs", host["host"])
                files[os.path.join("verif_overlay", "canary.rs")] = CANARY_RS.encode()
                can_units.append({"id": pid + ".canary." + pkg, "engine": "kani", "package": pkg, "host": lib,
                                  "modname": "verif_canary", "function": [], "_canary": True,
                                  "harness": [{"name": "verif_canary_must_fail", "obligations": [], "canary": True,
                                               "tier": "quick", "level": "P", "bound": "", "timeout_s": 120,
                                               "expect_covers": [], "panic_free": False}]})
            anchors.update(apply_overlay(files, units, scratch.src))
            for cu in can_units:
                t = files[cu["host"]].decode()
                t += '#[cfg(kani)] #[path = "%s"] mod verif_canary;\n' % os.path.join(scratch.src, "verif_overlay", "canary.rs")
                files[cu["host"]] = t.encode()
            scratch.sync(files)
            difftext, removed = overlay_diff(orig, files, scratch.src)
            diff_hash = hashlib.sha256(difftext.encode()).hexdigest()
            os.makedirs(EVID, exist_ok=True)
            with open(os.path.join(EVID, pid + (".partial" if only_units else "") + ".overlay.diff"), "w") as fh:
                fh.write(difftext)
            if removed:
                raise Undecided("overlay removed %d lines (must be add-only)" % removed)
            run_kani_units(scratch, units + can_units, tier, res, logdir)
            run_standalone_units(scratch, units, tier, res, logdir, orig, anchors, extracted)
            run_verus_units(scratch, units, tier, res, logdir, orig, anchors, extracted)
            check_declared(units, res)
        except Undecided as e:
            res.undecided.append(str(e))
        # ---- refutations -> replay -> VIOLATION / KNOWN-FINDING
        known = load_known()
        seen_obl = set()
        lines = []
        for rf in res.refuted:
            if rf["obligation"] in seen_obl:
                continue
            seen_obl.add(rf["obligation"])
            log("  refuted: %s (harness %s) — obtaining counterexample and replaying natively" % (rf["obligation"], rf["harness"]))
            u = next(x for x in units if x["id"] == rf["unit"])
            try:
                if os.environ.get("VERIF_NO_REPLAY"):
                    info = {"outcome": "no-counterexample", "detail": "replay disabled by VERIF_NO_REPLAY"}
                elif rf["engine"] == "kani":
                    info = kani_playback(scratch, rf, units, logdir)
                else:
                    info = verus_search(scratch, rf, u, seed, logdir)
            except Exception as e:  # replay machinery failure must not hide the refutation
                info = {"outcome": "no-counterexample", "detail": "replay machinery error: %r" % (e,)}
            hit = next((k for k in known.get("findings", []) if k.get("property") == pid and matches_known(k, rf, info)), None)
            rdir = os.path.join(REPLAYS, pid)
            os.makedirs(rdir, exist_ok=True)
            rpath = os.path.join(rdir, rf["obligation"] + ".json")
            rec = {"property": pid, "obligation": rf["obligation"], "unit": rf["unit"], "engine": rf["engine"],
                   "harness": rf["harness"], "package": rf.get("package"), "failed_checks": rf["descs"],
                   "replay": info, "tier": tier, "seed": seed,
                   "repo_head": subprocess.run(["git", "-C", REPO, "rev-parse", "HEAD"], capture_output=True, text=True).stdout.strip(),
                   "repo_dirty_files": subprocess.run(["git", "-C", REPO, "status", "--porcelain"], capture_output=True, text=True).stdout.split("\n")[:20]}
            if hit:
                known_hits.append(hit.get("id", rf["obligation"]))
                lines.append("KNOWN-FINDING: property=%s %s" % (pid, hit.get("what", rf["obligation"])))
                continue
            if info["outcome"] == "mismatch":
                res.undecided.append("replay-mismatch for %s: %s" % (rf["obligation"], info.get("detail")))
                with open(rpath, "w") as fh:
                    json.dump(rec, fh, indent=1)
                continue
            with open(rpath, "w") as fh:
                json.dump(rec, fh, indent=1)
            violations += 1
            suffix = "" if info["outcome"] in ("confirmed", "confirmed-other") else " no-failing-input-found"
            lines.append("VIOLATION property=%s replay=%s%s" % (pid, rpath, suffix))
            lines.append("  obligation %s refuted by %s; %s" % (rf["obligation"], rf["engine"], "; ".join(d.replace("\n", " ")[:160] for d in rf["descs"][:1])))
        if tier == "thorough" and not only_units and not os.environ.get("VERIF_NO_MUTANTS") \
                and os.path.isdir(os.path.join(VERIF, "mutants", pid)):
            # contract self-test on private copies of the tree (never /repo); informational only
            log("  thorough: mutant self-test (vlib/mutants.py %s)" % pid)
            env = dict(os.environ)
            env.pop("VERIF_SCRATCH", None)
            mp = subprocess.run([sys.executable, os.path.join(VERIF, "vlib", "mutants.py"), pid, "quick"],
                                capture_output=True, text=True, env=env)
            rows = [l for l in mp.stdout.split("\n") if l.strip()]
            res.mutants = {"summary": rows[-1] if rows else "no output", "rows": rows[:-1]}
            log("  " + res.mutants["summary"])
        assumptions = list(prop.get("assumptions", []))
        for u in units:
            assumptions += ["[%s] %s" % (u["id"], a) for a in u.get("assumptions", [])]
        assumptions += scan_assumptions(units)
        wall = time.time() - t0
        write_evidence(pid, tier, seed, prop, units, res, anchors, diff_hash, removed, wall, violations,
                       assumptions, known_hits, extracted, partial=bool(only_units))
        nP = sum(1 for o in res.obl.values() if o["level"] == "P")
        nB = sum(1 for o in res.obl.values() if o["level"] == "B")
        dP = sum(1 for o in res.obl.values() if o["level"] == "P" and o["status"] == "discharged")
        dB = sum(1 for o in res.obl.values() if o["level"] == "B" and o["status"] == "discharged")
        log("[%s/%s] complete obligations %d/%d discharged; bounded %d/%d; kani checks %d; solver %.1fs; wall %.0fs" % (
            pid, tier, dP, nP, dB, nB, res.kani_checks_total, res.solver_time_s, wall))
        for l in lines:
            log(l)
        if violations:
            rc = 1
        elif res.undecided:
            for r in res.undecided:
                log("UNDECIDED %s" % r)
            rc = 2
        else:
            rc = 0
        if rc != 0 or os.environ.get("VERIF_KEEP_LOGS"):
            keep = os.path.join(VERIF, "logs", pid)
            shutil.rmtree(keep, ignore_errors=True)
            shutil.copytree(logdir, keep)
            log("  logs kept in %s" % keep)
    finally:
        scratch.cleanup()
    return rc


def do_replay(pid, path, prop):
    """Re-run a recorded counterexample natively against a fresh copy of the current tree."""
    with open(path) as fh:
        rec = json.load(fh)
    info = rec.get("replay", {})
    if rec.get("engine") != "kani" or "test_source" not in info:
        print("replay file carries no executable counterexample (outcome: %s)" % info.get("outcome"))
        print(json.dumps(rec.get("failed_checks"), indent=1))
        return 2
    units = tier_units(prop, "thorough")
    u = next(x for x in units if x["id"] == rec["unit"])
    scratch = Scratch(pid + "-replay")
    try:
        orig = repo_files()
        files = dict(orig)
        anchors = {}
        if u["engine"] == "kani":
            apply_overlay(files, [u], scratch.src)
            ov = os.path.join("verif_overlay", os.path.basename(u["overlay"]))
            files[ov] = files[ov] + ("\n" + info["test_source"] + "\n").encode()
            scratch.sync(files)
            cwd = scratch.src
            cmd = ["cargo", "kani", "playback", "-Z", "concrete-playback", "-p", u["package"], "--", info["test_name"]]
        else:
            scratch.sync(files)
            cdir, _ = build_standalone(scratch, u, orig, anchors)
            with open(os.path.join(cdir, "src", "lib.rs"), "a") as fh:
                fh.write("\n" + info["test_source"] + "\n")
            cwd = cdir
            cmd = ["cargo", "kani", "playback", "-Z", "concrete-playback", "--", info["test_name"]]
        env = scratch.env()
        env["RUST_BACKTRACE"] = "0"
        rc, out, note = run(cmd, cwd, env, 1800, os.path.join(scratch.work, "replay.log"))
        m = re.search(r"panicked at ([^\n]*)\n([^\n]*)", out)
        if "test result: FAILED" in out and m:
            print("REPLAY confirmed: %s :: %s" % (m.group(1).replace(scratch.root, "$SCRATCH"), m.group(2)))
            print("VIOLATION property=%s replay=%s" % (pid, path))
            return 1
        if "test result: ok" in out:
            print("REPLAY: counterexample no longer fails on the current tree")
            return 0
        print("REPLAY: could not run (%s)\n%s" % (note, out[-800:]))
        return 2
    finally:
        scratch.cleanup()


if __name__ == "__main__":
    sys.exit(main(sys.argv))
