"""Per-property manifest text. A property appears in CLAIMED only once its check
passes on the unchanged tree; everything else stays in NOT_APPLICABLE."""

TECH_K = "contract-based deductive verification: Kani function contracts / contract harnesses on the real code (CBMC), bounded units labelled bounded"
TECH_KV = "contract-based deductive verification: Verus requires/ensures/invariants on code extracted verbatim each run + Kani function contracts on the real crate"

VERUS = {"C07", "C09"}

CLAIMED = {
    "C20": {
        "text": "Kani function contracts on the real `classify` (every f64 bit pattern / usize group count / ledger shape): silence => Insufficient and never Rejected; Rejected => positive opposition under the policy invariant; status/threshold table. `Policy::admits`/`mode_exclusion`/`threshold`+coherence slice establish the policy invariant 0<=material<=accept<=1. `Context::eligible` (verbatim into a unit-struct impl): retracted / superseded / expired / not-yet-valid / no-longer-valid / inadmissible-mode assertions are excluded with their reason, a stated confidence (0.0 included) is weighed as stated. The corroboration merge step of `aggregate` (verbatim slice, generic in the key type): all bridged groups merge into one with the union of keys and the maximum confidence, sharing never adds a group (bounded: every subset of <= 3 groups). Score fold of `aggregate` (two verbatim statement slices): canonicalisation is permutation-invariant bit-for-bit and monotone, scores stay in [0,1] (bounded: <=3 groups). Partial: decides only the listed contracts.",
        "note": "Scope: eligibility, classification kernel, mode admission, thresholds, merge step, score fold.",
        "technique": TECH_K,
    },
    "C11": {
        "text": "Complete proofs (loop-free, all (u64,f32) bit patterns) that BM25Index::compare_scored_docs is a strict total order on distinct ids — antisymmetric, transitive, score-descending, ties by ascending id, NaN last — which is what makes top-k a prefix of top-(k+1) and repeated queries agree; BM25Params::sanitized contract (finite, 0<=k1<=1000, 0<=b<=1 for every f32 pair); the tf component of score_term (verbatim statement slice) is finite and non-negative over the full f32 domain under those bounds. Partial.",
        "note": "Scope: ranking order and score well-formedness only.",
        "technique": TECH_K,
    },
    "C06": {
        "text": "Sequential contracts of the handle lifecycle kernels (ensure_mutable, set_read_only, poison, state, is_active_handle — bodies copied verbatim each run into a view struct with the real field types) over all 256 lifecycle bytes and all flag values: writes admitted iff Active and not read-only; a closed/deleted/poisoned/db-read-only handle cannot be re-enabled; poison preserves delete states and never yields Active; the sequential decision kernels of the async close() (admission loop; the lifecycle re-check after the exclusive gate drained: a handle poisoned while close was queued never reaches flush_inner) and begin_delete() (admission closed for good from every state). Thin slice of C06: the cancellation/queueing/storage-silence half is not decidable by contracts here.",
        "note": "Scope: sequential lifecycle state machine only.",
        "technique": TECH_K,
    },
    "C03": {
        "text": "Page selection of bounded queries: the limit handling of Collection::query_ids_from (verbatim slice; full Option<usize> domain: Some(0) => empty page, else min(limit.unwrap_or(1000),1000) >= 1) composed with ScanOrder::truncate on a concrete (len<=6 x 9 limits x both entry points) grid with symbolic u64 contents: the page is exactly the first (ascending) / last (descending) `limit` elements of the full ascending result. Bounded (grid). The visitor closure of the B-tree Field arm of filter_by_field_with (verbatim slice) composed with sort + truncate: the page is an end of the full ascending result whatever the key order of the ids (bounded: two keys) — this unit found a genuine defect, repaired by fix bed2241. The rest of the set-algebra half of C03 is not under contract.",
        "note": "Scope: page selection only.",
        "technique": TECH_K,
    },
    "C07": {
        "text": "Verus (unbounded, all u64): validate_ranges is Ok <=> every range is non-empty and inside the object, for slices of any length (loop invariant on the verbatim body); the range->chunk-span arithmetic of EncryptedStore::get_ranges/get_opts (verbatim statement slices) covers the request, is chunk-aligned, indexes the first chunk correctly, yields in-bounds offsets and cannot overflow. Kani: check_update_version succeeds iff the presented token is the current one (bounded strings); normalize_chunk_size >= 1. Partial: wrapper flows are async and not under contract.",
        "note": "Scope: precondition evaluators, range validation, span arithmetic.",
        "technique": TECH_KV,
    },
}

CLAIMED.update({
    "C01": {
        "text": "THIN SLICE. The allocation-watermark arithmetic that makes an acknowledged-but-unflushed add recoverable, as statement slices copied verbatim each run from add_impl, the async ensure_allocation_watermark (guards, target, publish), open's watermark initialiser and auto_repair_indexes' window, into a view struct over the two atomics they read — complete over all u64 (below the overflow corner): the published watermark never moves back and covers every acknowledged id, the value handed to the PUT covers the id, a failed PUT publishes nothing, the repair window is exactly (checkpoint, max(max id, watermark)], and end to end: from any state satisfying the invariant max(persisted, metadata max) == published, allocate -> publish -> crash before any flush -> reopen: the repair scan's window contains the id; an allocated id is above the metadata maximum (an id a flush acknowledged is never handed out again). Everything else C01 states (flush write order, intent replay, index manifests, poisoning, power loss at every backend step) is not decidable by contracts here.",
        "note": "Scope: watermark / repair-window arithmetic only.",
        "technique": TECH_K,
    },
    "C08": {
        "text": "THIN SLICE. The sweep decisions of SidecarStore::collect_garbage — two statement slices copied verbatim each run from inside its async listing loops: a generation object is a deletion candidate only if it is older than the run's floor (not an in-flight write), the key's commit point in the mark snapshot does not reference exactly that generation, and the commit point was decodable; a legacy object only if the commit point is neither in the legacy layout nor undecodable. Complete over all u64 timestamps on every snapshot state. Plus the in-flight registration of copy_payload and both put_multipart_opts (verbatim slices): the (location, generation) pair registered with the collector is the pair the written payload path is built from (bounded: concrete locations). 'Garbage collection never removes a payload that a committed key refers to' is decided only with respect to the snapshot the decision is handed; crash atomicity of the wrapper writes, the mark phase, the in-flight / re-read guards and GC-vs-writer schedules are not decidable by contracts here.",
        "note": "Scope: the two sweep decisions of collect_garbage only.",
        "technique": TECH_K,
    },
    "C09": {
        "text": "Kani contracts on the pure kernels the integrity argument rests on (complete over the full domain unless marked): derive_gcm_nonce keeps the 4-byte salt and is injective in the chunk index (no nonce reuse across chunks of one object); chunk_aad binds chunk size and index injectively (a chunk cannot be replayed elsewhere); chunk-AAD version resolution (unknown versions rejected, empty AAD only for LEGACY); the pre-crypto decision table of verify_metadata (stripped / partial authentication fields and strict-mode legacy are rejected — downgrade); field coverage of metadata_auth_aad (two metadata values differing only in one authenticated field have different sealed AAD; strings bounded <= 2 bytes) and prefix-freeness of the encoders. Verus (unbounded): chunk-span arithmetic and the plaintext trimming of the decryption stream (shared with C07). Partial.",
        "note": "Scope: nonce/AAD derivation, downgrade table, AAD field coverage, chunk indexing and trimming arithmetic. AES-GCM forgery detection is a cryptographic assumption.",
        "technique": TECH_KV,
    },
    "C18": {
        "text": "THIN SLICE. The version-selection reductions of historical reads — one fold step each of Store::element_at (keep the row with the greatest (seq, version)), Store::seq_at_time (last transaction committed at or before the instant) and Store::schema_version_at (last environment activated at or before the coordinate) — copied verbatim each run from inside their async loops into a dependency-free crate; each step is loop-free, so its contract is a complete proof over all u64 (timestamps: ordered pool, bounded). Plus the historical row re-checks of tuple matching (K1 Context::neighbours, K2 Context::tuple_subjects as slices, K3 tuple_matches in place): a row is accepted iff the live index filter of the same function would have matched it — an archived / tombstoned version is never walked (bounded: concrete tables). 'Latest version at or before the coordinate' for ANY number of rows follows by the standard induction over the loop, which is not machine-checked. Everything else C18 states (what is recorded, the historical matcher, schema resolution, purge) is not decidable by contracts here.",
        "note": "Scope: three fold steps of history.rs and three historical re-check kernels of kql/matching.rs; Store::elements_at's step (BTreeMap<String,_>) did not finish and is not under contract.",
        "technique": TECH_K,
    },
    "C19": {
        "text": "Kani contract harnesses on the real governance code of anda_cognitive_nexus (135 harnesses): covers / scope_matches / reaches_classification / conditions_hold against a specification restated from the documentation (empty list = unrestricted, empty value never matches a bounded list, expiry takes effect at the instant, strength / assurance / purpose bars); the attenuation lattice (AuthorityScope / AuthorityConditions / AuthorityConstraints::contains => pointwise implication of matching: a delegation never confers more than its container), export and max_results complete over every bool / u64; precedence of EffectiveAuthority::authorize on 18 concrete authority shapes (inactive principal / suspended space => Deny, a matching deny wins even over the owner, default deny, approvals_required > 0 => RequireApproval never Allow, expired grant denied); gate tables clause_permissions (every MutationClause variant, complete), kml / kql / meta permissions (Read != Export, AS OF => ReadHistory, belief pattern => Project). Mostly bounded (strings <= 2 bytes, lists <= 2, concrete shapes). Partial.",
        "note": "Scope: the pure authorization decision, its matching helpers, the attenuation lattice and the command->permission gate tables. redact::apply (field mask) did not finish and is not under contract.",
        "technique": TECH_K,
    },
    "C13": {
        "text": "Kani contract harnesses on the real FieldType::validate_inner / normalize / extract of anda_db_schema against a specification written independently of the match arms (spec_member: declared variant or a documented read-back alias; I64<-U64 = sign bit clear; F32<-F64 = exact f32 representability by bit pattern). Leaves (complete over the full u64/i64/f64/f32 payload domain, every (declared scalar type x value variant) cell, plain and under Option): nothing invalid is accepted, what is documented is accepted, NaN never, Null only under Option; after normalize an accepted value is in the declared variant, validates again and denotes the same number, a rejected value is left unchanged; extract from CBOR scalars yields a value that validates, in the declared variant, with the same value. Fixed composite shapes (bounded: nesting <= 3, <= 2 elements): Option<Array[I64]>, tuple arity, heterogeneous Array[], nested Option, Vector <-> Array[U64 <= 0xFFFF], Null in a required slot. Partial: the CBOR byte codec, serde visitors, derive macros, Document entry points, the complexity budget and schema upgrade are not under contract.",
        "note": "Scope: type-directed acceptance and read-back normalisation at scalar leaves and fixed composite shapes.",
        "technique": TECH_K,
    },
    "C16": {
        "text": "Kani contract harnesses on the real anda_kip validators: is_protected_field <=> the name is byte-exactly one of the four engine-owned names (every ASCII name <= 12 bytes); guard_immutable_field / guard_structural_mutation against a table re-spelled from the specification (6 bound kinds x 21 names, complete), applied by validate_clause and down to depth 2 of the WHERE binding; validate_exact_patterns rejects BELIEF / BeliefSlot at top level and inside NOT / OPTIONAL / UNION (depth <= 2) for all seven clause families that carry a WHERE; validate_clause Ok => an independent walker finds no engine-owned key in any SET / UNSET block (symbolic ASCII key <= 10 bytes, 12 clause-family x block cells); PURGE needs confirm == \"PURGE\" (every ASCII string <= 6 bytes); validate_plan checks every clause, rejects the empty plan and unbound handles. Partial: the text parser (nom), ASSERT desugaring, UPSERT CONCEPT, validate_command and the duplicate-handle rule are not under contract.",
        "note": "Scope: guard predicates and the tree validator on a finite clause x block x key matrix.",
        "technique": TECH_K,
    },
    "C14": {
        "text": "Kani contract harnesses on the real auth::authorize with ApiKeyHash::verify replaced by an uninterpreted relation (the table holds for EVERY relation): Ok(Admin) iff no admin key configured or the presented key verifies against it; Ok(Database) only at Database scope with a bound key that verifies — never at Root; every rejection is the one fixed 401/unauthorized answer and is identical whether the database is unbound, bound to another key or nonexistent (relational, two calls). RootMethod::parse / DbMethod::parse: every documented method name resolves to its selector in its scope only; Read is claimed only for pure queries (frozen table written from the documentation); every other ASCII name up to 28 bytes resolves to nothing (bounded). Partial: handlers and middleware are async and not under contract.",
        "note": "Scope: authorization decision and method/effect table.",
        "technique": TECH_K,
    },
})

NOT_APPLICABLE = {
    "C02": "relation between three concurrent index structures and the object store maintained by async methods; nothing synchronous carries it (DESIGN §3 C02)",
    "C04": "uniqueness lives in BTreeIndex::insert under DashMap locks (Kani 0.68 ICE intrinsics.rs:243, Verus cannot parse) plus async rollback and schedules (DESIGN §3 C04)",
    "C05": "a property of schedules; Kani has no threads, Verus would need a rewrite with permission types, i.e. a model (DESIGN §3 C05)",
    "C10": "index methods unreachable (Kani ICE on BTreeIndex, async flush, schedules); the only pure kernel range_key_matches_query did not finish at depth 2 in 15 min (DESIGN §3 C10, §7)",
    "C12": "search soundness/recall over a randomized concurrent graph; distance kernels define the metric and CBMC's libm model is too weak to state more (DESIGN §3 C12)",
    "C15": "nom combinator parsers unreachable for both verifiers; the only callable function validate_parser_budget exhausted 33 GB at 6 symbolic characters (DESIGN §3 C15)",
    "C17": "all-or-nothing is a frame condition over ten async collections; no synchronous kernel states any clause (DESIGN §3 C17)",
    # planned, not yet built in this commit (moved to CLAIMED when their check passes)
}


# ---- as built later: units in the async form (DESIGN §2.2 form 4) and after the seeded changes ----
_ADD = {
    "C01": " ALSO (async form: whole async fns copied verbatim, awaits kept, stand-in futures stamping a ghost clock): the checkpoint protocol of flush_inner — the intent log is retired last and only after every durable write of the flush returned Ok, indexes are persisted before the metadata that registers them, the storage checkpoint advances only after metadata and the ids bitmap, to the value the metadata write reported; and the two writers of the metadata object (store_metadata, store_metadata_unclaimed): every metadata object written carries the LIVE allocator value, the reported checkpoint is the persisted allocator, the flush version is claimed only after a successful PUT and never by the unclaimed writer. What each of those writes contains, and recovery from each prefix, stay out of reach.",
    "C03": " ALSO: filter_by_field (the step restricting a search's relevance-ordered candidates to the match set) verbatim in a view struct against an evaluator stand-in that may stop early when handed a limit: exactly the matching candidates, in relevance order (bounded: 3 documents).",
    "C06": " ALSO (async form): drop_data's kernel (prefix removal only after the exclusive gate and only while Deleting; Deleted only after a successful removal), the retiring-handle block of open_collection_with_schema (a replaced generation is drained — the drain future really awaited — or closed, and leaves the registry, before a fresh one is loaded), and the four mutating entry points add / update / remove / flush with mutation_lease, cancel_guard and the real CancelGuard Drop, POLLED k TIMES AND DROPPED: the body runs only on a handle that is writable after the gate was granted (a call queued behind a transition is rejected), a drop between the first effect and completion poisons the handle, a drop before the first effect changes nothing, a failed checkpoint poisons (bounded: lifecycle bytes 0..=6 for the raced family). The operation bodies themselves and every interleaving stay out of reach.",
    "C07": " ALSO: every commit document (MetaStore put / copy / multipart complete; EncryptedStore put / copy / complete) carries the commit time minted for THAT commit — for a copy whatever time the source has — the committed size and the fresh generation, and is stamped before it is sealed.",
    "C08": " ALSO (async form): the commit protocol every write goes through — SidecarStore::update_meta_with, delete_object, best_effort_delete whole, over every combination of backend outcomes: the commit point is PUT only after the payload it names is durable, Ok only for a committed switch, nothing deleted before the switch and never the committed payload or the commit point, only the replaced payload reclaimed, create never replaces a committed object (refused, or arbitrated by PutMode::Create), delete removes the commit point before the payload. Crash atomicity is thereby decided as the ORDER of one call's backend operations; interleavings are not explored.",
    "C09": " ALSO (async form): SidecarStore::listing_entry whole — an entry a verifying wrapper's listing surfaces comes from a document its validator accepted, the cached one included; a refused document is never surfaced.",
    "C19": " ALSO: the paging kernels of the HISTORY / CHANGES readers (async statement slices) under a relational contract — same page, same cursor decision, same cursor with hidden transactions interleaved as with them absent (bounded: 3 transactions); the ownership decision of resolve_at_depth (a suspended / revoked principal is not an owner); the gate tables are floors (asking for more never breaks C19).",
    "C20": " ALSO: the override kernel of Policy::from_settings — a policy whose thresholds or modes differ from the named one does not carry its id (bounded).",
}
_ADD["C13"] = " ALSO (thin slice): Schema::allocated_idx_end and the statement of upgrade_with that picks the first index handed to a new field — never an index the schema lineage already allocated."
for _k, _v in _ADD.items():
    CLAIMED[_k]["text"] += _v
CLAIMED["C01"]["note"] = "Scope: watermark / repair-window arithmetic, the checkpoint write order of flush_inner and the metadata writers."
CLAIMED["C06"]["note"] = "Scope: sequential lifecycle state machine, drop/reopen kernels, and the cancel-guard wrappers of add/update/remove/flush under drop-at-poll-k."
CLAIMED["C08"]["note"] = "Scope: the sweep decisions of collect_garbage, in-flight registration, and the backend-operation order of the commit protocol."
