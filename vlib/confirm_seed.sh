#!/bin/bash
# Confirm a seeded defect independently, in a scratch worktree outside /repo and /verif:
#   vlib/confirm_seed.sh <seed-name> <patch.diff> <demo-src> <demo-dst-rel> "<demo cargo test args>" [crate ...]
# 1. patch applies + workspace compiles, 2. existing tests pass WITH the patch (crates given, or whole
# workspace when none), 3. demo FAILS with the patch, 4. demo PASSES without it.  Writes a log to stdout.
set -u
NAME=$1; PATCH=$2; DEMO_SRC=$3; DEMO_DST=$4; DEMO_ARGS=$5; shift 5
WT=/tmp/confirm-$NAME
export CARGO_TARGET_DIR=/tmp/confirm-target CARGO_NET_OFFLINE=true
git -C /repo worktree remove --force $WT 2>/dev/null
git -C /repo worktree add -q $WT HEAD || exit 9
cd $WT
git apply "$PATCH" || { echo "RESULT patch-does-not-apply"; exit 9; }
echo "== existing tests WITH patch"
if [ $# -eq 0 ]; then PK="--workspace"; else PK=""; for c in "$@"; do PK="$PK -p $c"; done; fi
cargo test -j 6 $PK --no-fail-fast --offline 2>&1 | grep -E "^test result|FAILED|failed|^error" | sort | uniq -c | tee /tmp/confirm-$NAME.tests
if grep -qE "FAILED|^ *[0-9]+ error" /tmp/confirm-$NAME.tests; then echo "RESULT existing-tests-fail-with-patch"; fi
echo "== demo WITH patch (must fail)"
mkdir -p "$(dirname $DEMO_DST)"; cp "$DEMO_SRC" "$DEMO_DST"
cargo test -j 6 $DEMO_ARGS --offline 2>&1 | grep -E "^test |^test result|panicked" | head -20
W=${PIPESTATUS[0]}
echo "demo exit with patch: $W"
echo "== demo WITHOUT patch (must pass)"
git apply -R "$PATCH"
cargo test -j 6 $DEMO_ARGS --offline 2>&1 | grep -E "^test result" | head
WO=${PIPESTATUS[0]}
echo "demo exit without patch: $WO"
if [ "$W" != 0 ] && [ "$WO" = 0 ]; then echo "RESULT confirmed"; else echo "RESULT demo-not-discriminating"; fi
cd /; git -C /repo worktree remove --force $WT
