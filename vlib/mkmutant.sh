#!/bin/sh
# usage: mkmutant.sh <ID> <name> <file-rel> <python-expr-on-s>   — writes mutants/<ID>/<name>.patch
# the expression receives the file text as `s` and must return the mutated text
set -e
ID=$1; NAME=$2; REL=$3; EXPR=$4
T=$(mktemp -d /var/tmp/mkmut.XXXXXX)
mkdir -p $T/a/$(dirname $REL) $T/b/$(dirname $REL)
cp /repo/$REL $T/a/$REL
python3 - "$T/a/$REL" "$T/b/$REL" "$EXPR" <<'P'
import sys,re
s=open(sys.argv[1]).read()
t=eval(sys.argv[3])
assert t!=s, "mutation did not change the file"
open(sys.argv[2],'w').write(t)
P
(cd $T && diff -u a/$REL b/$REL | sed "1s#.*#--- a/$REL#;2s#.*#+++ b/$REL#" > /verif/mutants/$ID/$NAME.patch) || true
rm -rf $T
git -C /repo apply --check /verif/mutants/$ID/$NAME.patch && echo "ok $NAME"
