#!/bin/bash
# Run every claimed check (quick or thorough) against /repo's working tree, sequentially,
# with one shared persistent scratch; prints one summary line per property.
TIER=${1:-quick}
export VERIF_SCRATCH=${VERIF_SCRATCH:-/var/tmp/vall} VERIF_KEEP_LOGS=1 VERIF_JOBS=${VERIF_JOBS:-8}
cd "$(dirname "$0")/.."
for id in $(python3 -c "import json; print(' '.join(c['property_id'] for c in json.load(open('MANIFEST.json'))['checks']))"); do
  t0=$(date +%s)
  ./check $id $TIER > /tmp/runall-$id.out 2>&1
  rc=$?
  echo "$id rc=$rc $(( $(date +%s) - t0 ))s $(grep -E 'complete obligations' /tmp/runall-$id.out | sed 's/.*\] //')"
  grep -E "^UNDECIDED|^VIOLATION|^KNOWN" /tmp/runall-$id.out | head -5
done
