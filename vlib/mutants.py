#!/usr/bin/env python3
"""Self-test of the contracts: apply each deliberate property-breaking patch in
/verif/mutants/<ID>/*.patch to a private copy of /repo's working tree, run the
property's check against it and compare the refuted obligations with
mutants/<ID>/expect.json.  Never touches /repo.  An unrefuted mutant is a weakness
of the contract (reported, exit 3), never a property violation.

Usage: vlib/mutants.py <ID> [quick|thorough] [--only name]
"""
import json
import os
import shutil
import subprocess
import sys
import time

VERIF = os.path.dirname(os.path.dirname(os.path.abspath(__file__)))
REPO = os.environ.get("VERIF_REPO", "/repo")


def main():
    pid = sys.argv[1]
    tier = "quick"
    only = None
    args = sys.argv[2:]
    while args:
        a = args.pop(0)
        if a in ("quick", "thorough"):
            tier = a
        elif a == "--only":
            only = args.pop(0)
    mdir = os.path.join(VERIF, "mutants", pid)
    patches = sorted(f for f in os.listdir(mdir) if f.endswith(".patch")) if os.path.isdir(mdir) else []
    expect = {}
    ep = os.path.join(mdir, "expect.json")
    if os.path.exists(ep):
        with open(ep) as fh:
            expect = json.load(fh)
    # obligation -> unit that declares it (unit ids are not always the obligation's prefix)
    obl2unit = {}
    try:
        sys.path.insert(0, os.path.join(VERIF, "vlib"))
        import driver
        for u in driver.load_property(pid).get("unit", []):
            for h in u.get("harness", []):
                for o in h.get("obligations", []):
                    obl2unit[o] = u["id"]
            for o in u.get("obligation", []):
                obl2unit[o["name"]] = u["id"]
    except Exception:
        pass
    root = "/var/tmp/verif-mut-%s-%d" % (pid, os.getpid())
    work = os.path.join(root, "repo")
    scratch = os.environ.get("VERIF_SCRATCH") or os.path.join(root, "scratch")
    rows = []
    try:
        os.makedirs(root, exist_ok=True)
        subprocess.run(["rsync", "-a", "--delete", "--exclude", "/target", "--exclude", "/.git", REPO + "/", work + "/"], check=True)
        budget = float(os.environ.get("VERIF_MUTANT_BUDGET_S", "1500"))
        t_start = time.time()
        for p in patches:
            name = p[:-6]
            if only and name not in only.split(","):
                continue
            if not only and time.time() - t_start > budget:
                rows.append((name, "skipped (time budget %ds used)" % budget, [], expect.get(name, [])))
                print("%-40s skipped (time budget)" % name, flush=True)
                continue
            t0 = time.time()
            ap = subprocess.run(["patch", "-p1", "--no-backup-if-mismatch", "-i", os.path.join(mdir, p)], cwd=work,
                                capture_output=True, text=True)
            if ap.returncode != 0:
                rows.append((name, "skipped (patch no longer applies)", [], expect.get(name, [])))
                subprocess.run(["rsync", "-a", "--delete", "--exclude", "/target", "--exclude", "/.git", REPO + "/", work + "/"], check=True)
                continue
            env = dict(os.environ, VERIF_REPO=work, VERIF_SCRATCH=scratch, VERIF_NO_REPLAY="1",
                       VERIF_EVIDENCE_DIR=os.path.join(root, "evidence"))
            want = expect.get(name, [])
            # only the units whose obligations are expected to notice this mutant are run
            # (unit id = obligation name minus its last component); no expectation => whole property
            units = sorted({obl2unit.get(o, ".".join(o.split(".")[:-1])) for o in want})
            cmd = [os.path.join(VERIF, "check"), pid, tier] + (["--unit", ",".join(units)] if units else [])
            r = subprocess.run(cmd, cwd=VERIF, env=env, capture_output=True, text=True)
            refuted = []
            try:
                with open(os.path.join(root, "evidence", pid + (".partial.json" if units else ".json"))) as fh:
                    refuted = sorted(set(json.load(fh)["coverage"].get("refuted", [])))
            except Exception:
                pass
            if r.returncode == 1 and (not want or set(want) & set(refuted)):
                verdict = "refuted"
            elif r.returncode == 1:
                verdict = "refuted-other"
            elif r.returncode == 2:
                verdict = "undecided: " + "; ".join(l for l in r.stdout.split("\n") if l.startswith("UNDECIDED"))[:200]
            else:
                verdict = "NOT-REFUTED"
            rows.append((name, verdict, refuted, want))
            print("%-40s %-14s %5.0fs refuted=%s expected=%s" % (name, verdict, time.time() - t0, refuted, want), flush=True)
            subprocess.run(["patch", "-R", "-p1", "--no-backup-if-mismatch", "-i", os.path.join(mdir, p)], cwd=work,
                           capture_output=True, text=True)
    finally:
        shutil.rmtree(root, ignore_errors=True)
    applied = [r for r in rows if not r[1].startswith("skipped")]
    ok = [r for r in applied if r[1] == "refuted"]
    print("mutants: applied %d, refuted as expected %d" % (len(applied), len(ok)))
    return 0 if len(ok) == len(applied) else 3


if __name__ == "__main__":
    sys.exit(main())
