#!/usr/bin/env python3
"""Regenerates /verif/MANIFEST.json from vlib/manifest_data.py + units/*.toml."""
import json, os, sys, tomllib
VERIF = os.path.dirname(os.path.dirname(os.path.abspath(__file__)))
sys.path.insert(0, os.path.join(VERIF, "vlib"))
import manifest_data as D

checks = []
for pid in sorted(D.CLAIMED):
    c = D.CLAIMED[pid]
    with open(os.path.join(VERIF, "units", pid + ".toml"), "rb") as fh:
        prop = tomllib.load(fh)
    engines = sorted({u["engine"] for u in prop.get("unit", [])})
    eng = "kani-contracts" if any(e.startswith("kani") for e in engines) else "verus-extract"
    note = c["note"] + " NOT under contract: " + "; ".join(prop.get("not_under_contract", [])) + \
        " Assumed call-site facts: " + "; ".join(prop.get("assumptions", [])) + \
        " Trusted: Kani 0.68/CBMC 6.11/CaDiCaL, Verus 0.2026.09.13/Z3, rustc, the add-only overlay injector and verbatim extractor (vlib/driver.py)."
    checks.append({
        "property_id": pid,
        "quick_cmd": "./check %s quick" % pid,
        "thorough_cmd": "./check %s thorough" % pid,
        "evidence_file": "evidence/%s.json" % pid,
        "replay_cmd_template": "./check %s --replay {path}" % pid,
        "engine": eng,
        "level_claimed": {"category": "proof", "text": c["text"], "design_ref": "DESIGN.md §3 " + pid},
        "level_note": note,
        "technique": c["technique"],
    })
m = {
    "version": 1,
    "setup_cmd": "sh /verif/setup.sh",
    "hooks": {
        "guard": "cfg(kani) — set only by the Kani compiler; the lines carrying it exist only in the per-run scratch copy (add-only overlay), never in /repo",
        "enable": "./check copies /repo's working tree to /var/tmp/verif-<id>-<pid>, injects #[cfg_attr(kani, kani::ensures(..))] above anchored fns and appends #[cfg(kani)] mod lines (diff written to evidence/<id>.overlay.diff), then runs cargo kani / verus there and removes the copy",
        "baseline_off_cmd": "cd /repo/$(cat /w/out/cargo_root.txt 2>/dev/null) && (cargo nextest run --workspace --no-fail-fast --tool-config-file pb:/w/lib/nextest.toml --profile pb --test-threads 8 --offline || cargo test --workspace --no-fail-fast --offline)  # the pinned baseline command of /root/.vp/BASELINE.json; there is no guard to switch off: /repo carries no hook, only the two unguarded fix: commits",
        "source_commits": [],
        "add_only": True,
    },
    "engines": [
        {"name": "kani-contracts", "path": "vlib/driver.py",
         "serves_properties": sorted(D.CLAIMED),
         "kind_free_text": "Kani 0.68 function contracts (kani::ensures + proof_for_contract) and contract harnesses on the real crates / on statement slices extracted verbatim each run (CBMC 6.11, CaDiCaL)"},
        {"name": "verus-extract", "path": "vlib/driver.py", "serves_properties": [p for p in sorted(D.CLAIMED) if p in D.VERUS],
         "kind_free_text": "Verus 0.2026.09.13 requires/ensures/invariant on functions and statement slices extracted verbatim from /repo each run (Z3)"},
    ],
    "checks": checks,
    "not_applicable": [{"property_id": k, "reason": v} for k, v in sorted(D.NOT_APPLICABLE.items()) if k not in D.CLAIMED],
    "notes": "Exit 0 = every obligation discharged and every vacuity guard held; 1 = VIOLATION (an obligation refuted; Kani's counterexample is replayed natively against the real crate where available, otherwise the line ends no-failing-input-found); 2 = UNDECIDED (anchor lost, build failure, timeout, vacuity) — never an alarm. Claimed properties are claimed only in the scope stated in level_note; evidence lists functions under contract and those not.",
}
with open(os.path.join(VERIF, "MANIFEST.json"), "w") as fh:
    json.dump(m, fh, indent=1)
    fh.write("\n")
print("MANIFEST.json: %d checks, %d not_applicable" % (len(checks), len(m["not_applicable"])))
