//! Demonstration of the genuine C03 defect found by unit C03.scan (see
//! /verif/known_findings.json): a bounded query whose filter is a bare
//! `Filter::Field` on a B-tree index stopped its scan after `limit` hits in KEY
//! order, so its page was not an end of the full ascending-id result whenever ids
//! are not correlated with the indexed key.
//!
//! Copy to rs/anda_db/tests/c03_field_filter_page.rs and run
//!   cargo test -p anda_db --offline --test c03_field_filter_page
//! Fails before the `fix:` commit, passes after it.
use anda_db::{
    collection::{Collection, CollectionConfig},
    database::{AndaDB, DBConfig},
    error::DBError,
    query::{Filter, RangeQuery},
    schema::{AndaDBSchema, Fv},
    storage::StorageConfig,
};
use object_store::memory::InMemory;
use serde::{Deserialize, Serialize};
use std::sync::Arc;

#[derive(Debug, Clone, Serialize, Deserialize, PartialEq, AndaDBSchema)]
struct Row {
    _id: u64,
    age: u64,
}

async fn build() -> Result<(AndaDB, Arc<Collection>), DBError> {
    let db = AndaDB::create(
        Arc::new(InMemory::new()),
        DBConfig {
            name: "c03_field".to_string(),
            description: "C03 field page".to_string(),
            storage: StorageConfig { compress_level: 0, ..Default::default() },
            lock: None,
        },
    )
    .await?;
    let collection = db
        .create_collection(
            Row::schema()?,
            CollectionConfig { name: "rows".to_string(), description: "rows".to_string() },
            async |c| {
                c.create_btree_index(&["age"]).await?;
                Ok(())
            },
        )
        .await?;
    // _id grows 1..=6 while `age` falls 60..=10
    for age in [60u64, 50, 40, 30, 20, 10] {
        let mut row = Row { _id: 0, age };
        row._id = collection.add_from(&row).await?;
    }
    Ok((db, collection))
}

#[tokio::test]
async fn a_bounded_field_query_returns_an_end_of_the_full_ascending_result() -> Result<(), DBError> {
    let (_db, c) = build().await?;
    let all = || Filter::Field(("age".to_string(), RangeQuery::Ge(Fv::U64(0))));
    assert_eq!(c.query_all_ids(all()).await?, vec![1, 2, 3, 4, 5, 6]);
    // first `limit` of the full ascending result
    assert_eq!(c.query_ids(all(), Some(2)).await?, vec![1, 2]);
    // last `limit` of the full ascending result
    assert_eq!(c.query_last_ids(all(), Some(2)).await?, vec![5, 6]);
    Ok(())
}
