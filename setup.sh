#!/bin/sh
# Offline setup: nothing to build — the driver is python3-stdlib only and every
# check rebuilds what it verifies from /repo's working tree. Sanity-check the tools.
set -e
python3 -c 'import tomllib, json, sys; print("python", sys.version.split()[0])'
cargo kani --version | head -1
verus --version | sed -n 2p
mkdir -p /verif/evidence /verif/replays
