//! C11.score — statement slice S4 of `BM25Index::score_term` (bm25.rs): the
//! `let tf_component = …;` statement, copied verbatim from /repo on every run.
//! Free variables: tf, k1, b, doc_len, avg_doc_tokens (all f32).
#![allow(unused)]

pub fn slice_tf_component(tf: f32, k1: f32, b: f32, doc_len: f32, avg_doc_tokens: f32) -> f32 {
/*@EXTRACT:tf_component@*/
    tf_component
}

#[cfg(kani)]
mod verif_c11_score {
    use super::*;

    /// Under the facts the surrounding code establishes —
    ///   (k1, b) = params.sanitized()      => 0<=k1<=1000, 0<=b<=1   (C11.params.range, proved)
    ///   tf = token_freq as f32, postings carry tf >= 1             (assumption)
    ///   doc_len = usize as f32 >= 0                                  (cast of an unsigned count)
    ///   avg_doc_tokens = (..).max(1.0) >= 1, finite                 (the .max(1.0) in the code)
    /// the tf component is finite and non-negative: the score contribution
    /// idf * tf_component is finite and non-negative whenever idf is.
    #[kani::proof]
    #[kani::unwind(2)]
    fn c11_score_tf_component() {
        let tf: f32 = kani::any();
        let k1: f32 = kani::any();
        let b: f32 = kani::any();
        let doc_len: f32 = kani::any();
        let avg: f32 = kani::any();
        kani::assume(0.0 <= k1 && k1 <= 1000.0);
        kani::assume(0.0 <= b && b <= 1.0);
        kani::assume(1.0 <= tf && tf <= 4294967296.0);
        kani::assume(0.0 <= doc_len && doc_len <= 1.8446744e19);
        kani::assume(1.0 <= avg && avg <= 1.8446744e19);
        let r = slice_tf_component(tf, k1, b, doc_len, avg);
        assert!(r.is_finite(), "OBL:C11.score.tf_component_finite");
        assert!(r >= 0.0, "OBL:C11.score.tf_component_nonnegative");
        kani::cover!(r > 1.5, "COVER:saturating");
        kani::cover!(true, "COVER:reach");
    }
}
