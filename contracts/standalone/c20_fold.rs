//! C20.fold — statement slices S3a/S3b of `aggregate` (projection/mod.rs):
//!   S3a  canonicalisation: `let mut strongest: Vec<f64> = …clamp…collect(); strongest.sort_by(f64::total_cmp);`
//!   S3b  fold:             `let score = 1.0 - strongest.iter().fold(1.0, |acc, c| acc * (1.0 - c));`
//! Both are copied verbatim from /repo on every run. S3a's only free variable is
//! `groups`; S3b's only free variable is `strongest` — the wrappers do not compile
//! if a slice starts reading anything else, so "the score is a function of the
//! canonicalised confidences only" is checked by rustc, and order independence of
//! the score reduces to order independence of S3a (function congruence).
#![allow(unused)]

pub fn slice_canon(groups: &Vec<(Vec<String>, f64)>) -> Vec<f64> {
/*@EXTRACT:canon@*/
    strongest
}

pub fn slice_fold(strongest: &Vec<f64>) -> f64 {
/*@EXTRACT:fold@*/
    score
}

#[cfg(kani)]
mod verif_c20_fold {
    use super::*;
    use core::mem::ManuallyDrop;

    fn conf() -> f64 {
        let c: f64 = kani::any();
        // NaN confidences are excluded (assumption listed in units/C20.toml).
        kani::assume(!c.is_nan());
        c
    }

    fn groups_of(cs: &[f64]) -> ManuallyDrop<Vec<(Vec<String>, f64)>> {
        let mut v = Vec::new();
        for c in cs {
            v.push((Vec::new(), *c));
        }
        ManuallyDrop::new(v)
    }

    fn canon(cs: &[f64]) -> ManuallyDrop<Vec<f64>> {
        ManuallyDrop::new(slice_canon(&groups_of(cs)))
    }

    fn same_bits(a: &Vec<f64>, b: &Vec<f64>) -> bool {
        if a.len() != b.len() {
            return false;
        }
        let mut i = 0;
        while i < a.len() {
            if a[i].to_bits() != b[i].to_bits() {
                return false;
            }
            i += 1;
        }
        true
    }

    fn in_unit(x: f64) -> bool {
        0.0 <= x && x <= 1.0
    }

    /// S3a is invariant under every permutation of 2 and 3 groups, bit for bit.
    #[kani::proof]
    #[kani::unwind(5)]
    fn c20_canon_order_independent() {
        let a = conf();
        let b = conf();
        let c = conf();
        let s2 = canon(&[a, b]);
        assert!(same_bits(&s2, &canon(&[b, a])), "OBL:C20.fold.order_independent");
        let s = canon(&[a, b, c]);
        assert!(same_bits(&s, &canon(&[a, c, b])), "OBL:C20.fold.order_independent");
        assert!(same_bits(&s, &canon(&[b, a, c])), "OBL:C20.fold.order_independent");
        assert!(same_bits(&s, &canon(&[b, c, a])), "OBL:C20.fold.order_independent");
        assert!(same_bits(&s, &canon(&[c, a, b])), "OBL:C20.fold.order_independent");
        assert!(same_bits(&s, &canon(&[c, b, a])), "OBL:C20.fold.order_independent");
        kani::cover!(a != b && b != c && a != c, "COVER:distinct");
        kani::cover!(true, "COVER:reach");
    }

    /// S3a yields one clamped value per group, each in [0,1].
    #[kani::proof]
    #[kani::unwind(5)]
    fn c20_canon_range() {
        let a = conf();
        let b = conf();
        let c = conf();
        let s = canon(&[a, b, c]);
        assert!(s.len() == 3 && in_unit(s[0]) && in_unit(s[1]) && in_unit(s[2]), "OBL:C20.fold.canon_range");
        let s1 = canon(&[a]);
        assert!(s1.len() == 1 && in_unit(s1[0]), "OBL:C20.fold.canon_range");
        kani::cover!(s[0] < s[1] && s[1] < s[2], "COVER:strict");
        kani::cover!(true, "COVER:reach");
    }

    /// Raising one group's strongest confidence (any position) never lowers any
    /// element of the canonical sequence.
    #[kani::proof]
    #[kani::unwind(5)]
    fn c20_canon_monotone() {
        let a = conf();
        let a2 = conf();
        let b = conf();
        let c = conf();
        kani::assume(a2 >= a);
        let s = canon(&[a, b, c]);
        let t = canon(&[a2, b, c]);
        assert!(t[0] >= s[0] && t[1] >= s[1] && t[2] >= s[2], "OBL:C20.fold.canon_monotone");
        let s = canon(&[a, b]);
        let t = canon(&[a2, b]);
        assert!(t[0] >= s[0] && t[1] >= s[1], "OBL:C20.fold.canon_monotone");
        kani::cover!(a2 > c && c > b && b > a && a > 0.0 && a2 < 1.0, "COVER:reorders");
        kani::cover!(true, "COVER:reach");
    }

    fn unit() -> f64 {
        let c: f64 = kani::any();
        kani::assume(in_unit(c));
        c
    }

    /// S3b maps sequences over [0,1] (S3a's postcondition) into [0,1]: 1..3 groups.
    #[kani::proof]
    #[kani::unwind(5)]
    fn c20_fold_range() {
        let a = unit();
        let b = unit();
        let c = unit();
        let s1 = slice_fold(&ManuallyDrop::new(vec![a]));
        let s2 = slice_fold(&ManuallyDrop::new(vec![a, b]));
        let s3 = slice_fold(&ManuallyDrop::new(vec![a, b, c]));
        assert!(in_unit(s1) && in_unit(s2) && in_unit(s3), "OBL:C20.fold.range");
        kani::cover!(s3 > 0.5 && s3 < 1.0, "COVER:interior");
        kani::cover!(true, "COVER:reach");
    }

    /// Thorough tier: 4 groups, the 4 adjacent-transposition + rotation generators of S4.
    #[kani::proof]
    #[kani::unwind(6)]
    fn c20_canon4_order_independent() {
        let (a, b, c, d) = (conf(), conf(), conf(), conf());
        let s = canon(&[a, b, c, d]);
        assert!(same_bits(&s, &canon(&[b, a, c, d])), "OBL:C20.fold.order_independent");
        assert!(same_bits(&s, &canon(&[b, c, d, a])), "OBL:C20.fold.order_independent");
        kani::cover!(true, "COVER:reach");
    }
}
