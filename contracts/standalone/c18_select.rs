//! C18.select — the version-selection reductions of historical (AS OF) reads in
//! rs/anda_cognitive_nexus/src/store/history.rs. Each is ONE ITERATION of a fold
//! that sits inside an `async fn` loop (`for row_id in ids { let row = …await…;
//! <step> }`); the step statements are copied verbatim from /repo on every run.
//! A step is loop-free, so its contract is a complete proof over all u64; that the
//! fold of such steps over ANY number of rows yields the maximum is the standard
//! induction over the loop (mathematical, not machine-checked — the loop is async).
//!
//! What the extraction drops: the rows are reduced to the fields the steps read
//! (`seq`, `version`, `element`, `committed_at`); the database queries that
//! produce `ids` (including the `seq <= coordinate` filter of element_at /
//! elements_at) and `decode` are not under contract.
#![allow(unused)]

#[derive(Clone, PartialEq, Debug)]
pub struct Row {
    pub seq: u64,
    pub version: u64,
    pub element: String,
    pub committed_at: String,
    pub payload: u64,
}

/// `element_at`: keep the row with the greatest (seq, version).
pub fn slice_element_at_step(best: Option<Row>, row: Row) -> Option<Row> {
    let mut best = best;
/*@EXTRACT:element_at_step@*/
    best
}

/// `seq_at_time`: the greatest seq among transactions committed at or before `at`.
pub fn slice_seq_at_time_step(seq: u64, row: &Row, at: &str) -> u64 {
    let mut seq = seq;
/*@EXTRACT:seq_at_time_step@*/
    seq
}

/// `schema_version_at`: the greatest version among environments activated at or
/// before the coordinate.
pub struct EnvRow {
    pub version: u64,
}
pub fn slice_schema_version_step(version: u64, row: &EnvRow, activated_at: u64, seq: u64) -> u64 {
    let mut version = version;
/*@EXTRACT:schema_version_step@*/
    version
}

#[cfg(kani)]
mod verif_c18_select {
    use super::*;
    use core::mem::ManuallyDrop;

    fn row(element: &str) -> Row {
        Row { seq: kani::any(), version: kani::any(), element: String::from(element), committed_at: String::new(), payload: kani::any() }
    }

    fn newer(a: &Row, b: &Row) -> bool {
        a.seq > b.seq || (a.seq == b.seq && a.version > b.version)
    }

    /// One step of element_at: the result is the later of (best, row) in (seq,
    /// version) order; it is one of the two, unchanged (payload included).
    #[kani::proof]
    #[kani::unwind(3)]
    fn c18_element_at_step() {
        let r = row("e");
        let r_seq = r.seq;
        let r_ver = r.version;
        let r_pay = r.payload;
        // best = None
        let out = ManuallyDrop::new(slice_element_at_step(None, r));
        assert!(matches!(&*out, Some(o) if o.seq == r_seq && o.version == r_ver && o.payload == r_pay), "OBL:C18.select.element_at_keeps_latest");
        // best = Some(b)
        let b = row("e");
        let (b_seq, b_ver, b_pay) = (b.seq, b.version, b.payload);
        let r2 = row("e");
        let (s2, v2, p2) = (r2.seq, r2.version, r2.payload);
        let row_is_newer = s2 > b_seq || (s2 == b_seq && v2 > b_ver);
        let out = ManuallyDrop::new(slice_element_at_step(Some(b), r2));
        match &*out {
            Some(o) => {
                if row_is_newer {
                    assert!(o.seq == s2 && o.version == v2 && o.payload == p2, "OBL:C18.select.element_at_keeps_latest");
                } else {
                    assert!(o.seq == b_seq && o.version == b_ver && o.payload == b_pay, "OBL:C18.select.element_at_keeps_latest");
                }
            }
            None => assert!(false, "OBL:C18.select.element_at_keeps_latest"),
        }
        kani::cover!(row_is_newer, "COVER:replaced");
        kani::cover!(!row_is_newer, "COVER:kept");
        kani::cover!(true, "COVER:reach");
    }

    /// One step of seq_at_time; timestamps from a 3-element ordered pool of the
    /// normalized UTC form (the step only compares them).
    #[kani::proof]
    #[kani::unwind(32)]
    fn c18_seq_at_time_step() {
        let pool = ["2026-01-01T00:00:00.000Z", "2026-01-02T00:00:00.000Z", "2026-01-03T00:00:00.000Z"];
        let mut i = 0;
        while i < 3 {
            let mut j = 0;
            while j < 3 {
                let seq: u64 = kani::any();
                let r = ManuallyDrop::new(Row { seq: kani::any(), version: 0, element: String::new(), committed_at: String::from(pool[i]), payload: 0 });
                let out = slice_seq_at_time_step(seq, &r, pool[j]);
                let want = if i <= j && r.seq > seq { r.seq } else { seq };
                assert!(out == want, "OBL:C18.select.seq_at_time_last_commit_at_or_before");
                j += 1;
            }
            i += 1;
        }
        kani::cover!(true, "COVER:reach");
    }

    /// One step of schema_version_at — all u64.
    #[kani::proof]
    #[kani::unwind(2)]
    fn c18_schema_version_step() {
        let version: u64 = kani::any();
        let rv: u64 = kani::any();
        let activated_at: u64 = kani::any();
        let seq: u64 = kani::any();
        let out = slice_schema_version_step(version, &EnvRow { version: rv }, activated_at, seq);
        let want = if activated_at <= seq && rv > version { rv } else { version };
        assert!(out == want, "OBL:C18.select.schema_version_in_force");
        assert!(out >= version, "OBL:C18.select.schema_version_in_force");
        kani::cover!(out != version, "COVER:advanced");
        kani::cover!(true, "COVER:reach");
    }
}
