//! C20.group — statement slice S6 of `aggregate` (projection/mod.rs): the
//! corroboration merge step executed for ONE candidate — from `let mut merged …`
//! through `if merged.is_none() { groups.push(..) }` — copied verbatim from /repo
//! on every run. Free variables: `groups`, `keys`, `candidate.confidence`.
//!
//! The wrapper is GENERIC in the key type (`K: PartialEq + Clone`): rustc checks
//! that the slice uses keys only through `==` and `clone`, so instantiating it at
//! `u8` instead of `String` drops nothing but the string representation. What the
//! extraction drops (listed as assumptions): how `keys` is built by the two
//! `format!` calls ("actor:{}" / "evidence:{}" — injective, disjoint namespaces)
//! and the `side` filter; both sit before the slice.
//!
//! Contract of one step (written from the property, not from the loop): with
//! groups pairwise key-disjoint before the step,
//!   * every group sharing no key with the candidate is kept unchanged, in order;
//!   * ALL groups sharing a key with the candidate and the candidate's own keys
//!     end up in ONE group whose confidence is the maximum of theirs;
//!   * #groups' = #groups - #hit + 1  (so a candidate that shares an actor or
//!     evidence never increases the number of independent groups);
//!   * groups stay pairwise key-disjoint.
//! A partition maintained by such steps is the set of connected components of
//! the "shares an actor or evidence" graph, whatever the order of the candidates.
#![allow(unused)]

pub struct Cand {
    pub confidence: f64,
}

pub fn slice_merge<K: PartialEq + Clone>(groups: &mut Vec<(Vec<K>, f64)>, keys: Vec<K>, candidate: &Cand) {
/*@EXTRACT:merge@*/
}

#[cfg(kani)]
mod verif_c20_group {
    use super::*;
    use core::mem::ManuallyDrop;

    /// Newtype key: `<[u8]>::contains` specialises to memchr (word-at-a-time pointer
    /// tricks CBMC cannot digest); a newtype takes the generic PartialEq path.
    #[derive(Clone, Copy, PartialEq)]
    pub struct Key(u32);

    type G = Vec<(Vec<Key>, f64)>;

    fn conf() -> f64 {
        let c: f64 = kani::any();
        kani::assume(c >= 0.0 && c <= 1.0);
        c
    }

    fn has(v: &Vec<Key>, k: Key) -> bool {
        let mut i = 0;
        while i < v.len() {
            if v[i] == k {
                return true;
            }
            i += 1;
        }
        false
    }

    fn intersects(a: &Vec<Key>, b: &Vec<Key>) -> bool {
        let mut i = 0;
        while i < a.len() {
            if has(b, a[i]) {
                return true;
            }
            i += 1;
        }
        false
    }

    fn subset(a: &Vec<Key>, b: &Vec<Key>) -> bool {
        let mut i = 0;
        while i < a.len() {
            if !has(b, a[i]) {
                return false;
            }
            i += 1;
        }
        true
    }

    fn same_vec(a: &Vec<Key>, b: &Vec<Key>) -> bool {
        if a.len() != b.len() {
            return false;
        }
        let mut i = 0;
        while i < a.len() {
            if a[i] != b[i] {
                return false;
            }
            i += 1;
        }
        true
    }

    fn pairwise_disjoint(g: &G) -> bool {
        let mut i = 0;
        while i < g.len() {
            let mut j = i + 1;
            while j < g.len() {
                if intersects(&g[i].0, &g[j].0) {
                    return false;
                }
                j += 1;
            }
            i += 1;
        }
        true
    }

    /// One merge step on a CONCRETE key layout (rule 1: which groups the candidate
    /// touches is structure): group i holds the keys {10i, 10i+1}; the candidate
    /// holds its own fresh key 99 plus key 10i+1 of every group i with hit[i].
    /// The candidate's confidence is symbolic in [0,1]; group confidences are concrete.
    /// group i holds the keys {10i, 10i+1} with confidence 0.2 + 0.1 i. Every Vec is
    /// pre-sized so that neither the harness nor the slice ever reallocates (a
    /// realloc'd buffer loses CBMC's constant propagation, see units/C20.toml).
    fn layout(n: usize) -> G {
        let mut g: G = Vec::with_capacity(8);
        let mut i = 0;
        while i < n {
            let mut ks = Vec::with_capacity(16);
            ks.push(Key(10 * i as u32));
            ks.push(Key(10 * i as u32 + 1));
            g.push((ks, 0.2 + 0.1 * i as f64));
            i += 1;
        }
        g
    }

    fn step(hit: &[bool]) {
        let n = hit.len();
        let before = ManuallyDrop::new(layout(n));
        let mut groups = ManuallyDrop::new(layout(n));
        let mut keys: Vec<Key> = Vec::with_capacity(8);
        let mut keys0: Vec<Key> = Vec::with_capacity(8);
        keys.push(Key(99));
        keys0.push(Key(99));
        let mut i = 0;
        while i < n {
            if hit[i] {
                keys.push(Key(10 * i as u32 + 1));
                keys0.push(Key(10 * i as u32 + 1));
            }
            i += 1;
        }
        let keys0 = ManuallyDrop::new(keys0);
        let c = conf();
        slice_merge(&mut groups, keys, &Cand { confidence: c });
        let after: &G = &groups;

        // the specification, computed from the before-state
        let mut hits = 0usize;
        let mut max_conf = c;
        let mut i = 0;
        while i < before.len() {
            if intersects(&before[i].0, &keys0) {
                hits += 1;
                if before[i].1 > max_conf {
                    max_conf = before[i].1;
                }
            }
            i += 1;
        }
        assert!(after.len() == before.len() - hits + 1, "OBL:C20.group.count");
        assert!(hits == 0 || after.len() <= before.len(), "OBL:C20.group.sharing_never_adds_a_group");
        // untouched groups survive unchanged and in order
        let mut i = 0;
        let mut pos = 0usize;
        while i < before.len() {
            if !intersects(&before[i].0, &keys0) {
                let mut found = false;
                while pos < after.len() {
                    if same_vec(&after[pos].0, &before[i].0) && after[pos].1 == before[i].1 {
                        found = true;
                        pos += 1;
                        break;
                    }
                    pos += 1;
                }
                assert!(found, "OBL:C20.group.untouched_groups_preserved");
            }
            i += 1;
        }
        // exactly one group holds the candidate's keys, all hit groups' keys, nothing else
        let mut holder = usize::MAX;
        let mut holders = 0usize;
        let mut i = 0;
        while i < after.len() {
            if intersects(&after[i].0, &keys0) {
                holders += 1;
                holder = i;
            }
            i += 1;
        }
        assert!(holders == 1, "OBL:C20.group.one_group_holds_the_candidate");
        if holders == 1 {
            let m = &after[holder];
            assert!(subset(&keys0, &m.0), "OBL:C20.group.merged_keys_are_the_union");
            let mut i = 0;
            while i < before.len() {
                if intersects(&before[i].0, &keys0) {
                    assert!(subset(&before[i].0, &m.0), "OBL:C20.group.merged_keys_are_the_union");
                }
                i += 1;
            }
            let mut j = 0;
            while j < m.0.len() {
                let k = m.0[j];
                let mut from_hit = has(&keys0, k);
                let mut i = 0;
                while i < before.len() {
                    if intersects(&before[i].0, &keys0) && has(&before[i].0, k) {
                        from_hit = true;
                    }
                    i += 1;
                }
                assert!(from_hit, "OBL:C20.group.merged_keys_are_the_union");
                j += 1;
            }
            assert!(m.1 == max_conf, "OBL:C20.group.merged_confidence_is_the_maximum");
        }
        assert!(pairwise_disjoint(after), "OBL:C20.group.groups_stay_disjoint");
    }

    macro_rules! group_harness {
        ($name:ident, $hit:expr) => {
            #[kani::proof]
            #[kani::unwind(18)]
            fn $name() {
                step(&$hit);
                kani::cover!(true, "COVER:reach");
            }
        };
    }

    // every subset of 0..3 existing groups as the set the candidate touches
    group_harness!(c20_group_0, []);
    group_harness!(c20_group_1_0, [false]);
    group_harness!(c20_group_1_1, [true]);
    group_harness!(c20_group_2_00, [false, false]);
    group_harness!(c20_group_2_01, [false, true]);
    group_harness!(c20_group_2_10, [true, false]);
    group_harness!(c20_group_2_11, [true, true]);
    group_harness!(c20_group_3_000, [false, false, false]);
    group_harness!(c20_group_3_001, [false, false, true]);
    group_harness!(c20_group_3_010, [false, true, false]);
    group_harness!(c20_group_3_011, [false, true, true]);
    group_harness!(c20_group_3_100, [true, false, false]);
    group_harness!(c20_group_3_101, [true, false, true]);
    group_harness!(c20_group_3_110, [true, true, false]);
    group_harness!(c20_group_3_111, [true, true, true]);
    // four groups: the bridging patterns where a removal shifts a later hit group
    group_harness!(c20_group_4_1111, [true, true, true, true]);
    group_harness!(c20_group_4_0111, [false, true, true, true]);
    group_harness!(c20_group_4_1011, [true, false, true, true]);
    group_harness!(c20_group_4_1101, [true, true, false, true]);
}
