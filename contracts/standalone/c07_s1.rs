//! C07.span.s1 — slice S1 of `EncryptedStore::get_opts` (encryption.rs): the
//! checked-ops form of the chunk-aligned read range, copied verbatim on every run.
//! Verus proves the closure-independent facts for all u64 (C07.span); the one fact
//! that depends on the two `and_then` closures — the fetched range covers the
//! requested one — is discharged here by Kani, BOUNDED to operands < 2^16 (full
//! 64-bit division did not finish under CaDiCaL or Z3 in 5 min each).
#![allow(unused)]
use core::ops::Range;

pub struct Metadata {
    pub size: u64,
}

pub fn slice_s1(range: Range<u64>, chunk_size: u64, meta: &Metadata) -> (u64, u64) {
/*@EXTRACT:s1_span@*/
    (rr_start, rr_end)
}

#[cfg(kani)]
mod verif_c07_s1 {
    use super::*;

    #[kani::proof]
    #[kani::unwind(2)]
    fn c07_s1_covers_request_16bit() {
        let start: u64 = kani::any();
        let end: u64 = kani::any();
        let size: u64 = kani::any();
        let chunk: u64 = kani::any();
        kani::assume(size < 65536 && chunk >= 1 && chunk < 65536);
        kani::assume(start < end && end <= size);
        let (rr_start, rr_end) = slice_s1(start..end, chunk, &Metadata { size });
        assert!(rr_start <= start, "OBL:C07.s1.covers_request");
        assert!(end <= rr_end && rr_end <= size, "OBL:C07.s1.covers_request");
        assert!(rr_end % chunk == 0 || rr_end == size, "OBL:C07.s1.end_aligned");
        kani::cover!(rr_end < size && rr_start > 0, "COVER:interior");
        kani::cover!(true, "COVER:reach");
    }

    /// The saturating corner the tests never reach: a chunk size so large that
    /// `(idx + 1) * chunk_size` overflows falls back to `u64::MAX.min(size)`.
    #[kani::proof]
    #[kani::unwind(2)]
    fn c07_s1_overflow_corner() {
        let start: u64 = kani::any();
        let end: u64 = kani::any();
        let size: u64 = kani::any();
        let k: u8 = kani::any();
        kani::assume(k >= 1);
        // chunk sizes 2^63 + k: one chunk holds the whole u64 range except its tail
        let chunk: u64 = (1u64 << 63) + k as u64;
        kani::assume(start < end && end <= size);
        let (rr_start, rr_end) = slice_s1(start..end, chunk, &Metadata { size });
        assert!(rr_start <= start && end <= rr_end && rr_end <= size, "OBL:C07.s1.covers_request");
        kani::cover!(end > chunk, "COVER:second_chunk");
        kani::cover!(true, "COVER:reach");
    }
}
