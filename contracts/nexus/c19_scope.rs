//! C19.scope — contracts of `scope_matches`, `reaches_classification` and
//! `conditions_hold` (rs/anda_cognitive_nexus/src/governance/decision.rs).
//!
//! Child module of `governance::decision` (cfg(kani), scratch copy only).
//! `scope_matches` is verified against the BODY of `covers` (non-modular): the
//! attribute form of the `covers` contract needed for `stub_verified` costs 178-335 s
//! per block (see c19_covers.rs), the real `covers` 1-3 s. The specification side
//! uses `spec_covers` (c19_common.rs), which unit C19.covers proves equal to `covers`.
//!
//! Specifications are written from the property ("an authority covers a resource
//! only if every bound list covers it"; "expiry takes effect on the very next
//! request") and from the documentation of `AuthorityConditions`,
//! `auth_strength`, `purpose_assurance` and `classification`; the rank tables below
//! are re-stated from that documentation, not imported from the code.
#[path = "c19_common.rs"]
mod common;
use super::*;
use common::{auth_ctx, conditions, is, listed, spec_covers, sym_list, sym_str};
use core::mem::ManuallyDrop;

// ---------------------------------------------------------------------------
// documented orders, restated
// ---------------------------------------------------------------------------

/// auth_strength: none < standard < strong; an unrecognized name is the LOWEST rung.
pub(super) fn spec_strength(s: &str) -> u8 {
    if is(s, "strong") {
        2
    } else if is(s, "standard") {
        1
    } else {
        0
    }
}

/// purpose_assurance: declared < session_bound < system_bound < approved; unknown lowest.
pub(super) fn spec_assurance(s: &str) -> u8 {
    if is(s, "approved") {
        3
    } else if is(s, "system_bound") {
        2
    } else if is(s, "session_bound") {
        1
    } else {
        0
    }
}

/// classification: public < internal < private < sensitive < secret; an absent label
/// reads as the default `internal` (never public); an unrecognized label ranks ABOVE
/// every known one.
pub(super) fn spec_class(s: &str) -> u8 {
    if is(s, "public") {
        0
    } else if is(s, "internal") || s.len() == 0 {
        1
    } else if is(s, "private") {
        2
    } else if is(s, "sensitive") {
        3
    } else if is(s, "secret") {
        4
    } else {
        u8::MAX
    }
}

/// Lexicographic byte order `a < b` — the order in which normalized timestamps are
/// chronological (crate::time).
pub(super) fn lex_lt(a: &str, b: &str) -> bool {
    let (a, b) = (a.as_bytes(), b.as_bytes());
    let mut i = 0;
    while i < a.len() && i < b.len() {
        if a[i] != b[i] {
            return a[i] < b[i];
        }
        i += 1;
    }
    a.len() < b.len()
}

pub(super) fn spec_scope_matches(s: &AuthorityScope, r: &ResourceContext) -> bool {
    spec_covers(&s.kinds, &r.kind)
        && spec_covers(&s.schema_refs, &r.schema_ref)
        && spec_covers(&s.classifications, &r.classification)
        && spec_covers(&s.elements, &r.element_id)
}

pub(super) fn spec_reaches(c: &AuthorityConstraints, r: &ResourceContext) -> bool {
    c.max_classification.len() == 0 || spec_class(&r.classification) <= spec_class(&c.max_classification)
}

/// Not yet in force / no longer in force.
pub(super) fn spec_in_window(c: &AuthorityConditions, now: &str) -> bool {
    let started = c.valid_from.len() == 0 || !lex_lt(now, &c.valid_from);
    let not_expired = c.valid_until.len() == 0 || lex_lt(now, &c.valid_until);
    started && not_expired
}

pub(super) fn spec_conditions_hold(c: &AuthorityConditions, a: &AuthContext, now: &str) -> bool {
    spec_in_window(c, now)
        && spec_strength(&a.auth_strength) >= spec_strength(&c.min_auth_strength)
        && spec_assurance(&a.purpose_assurance) >= spec_assurance(&c.min_purpose_assurance)
        && (c.purpose.len() == 0 || listed(&c.purpose, &a.purpose))
}

// ---------------------------------------------------------------------------
// scope_matches (builders: c19_common.rs — structure concrete, payload symbolic)
// ---------------------------------------------------------------------------

fn scope_block(k: &[usize], s: &[usize], c: &[usize], e: &[usize], r: [usize; 4]) {
    let scope = ManuallyDrop::new(AuthorityScope {
        kinds: sym_list(k),
        schema_refs: sym_list(s),
        classifications: sym_list(c),
        elements: sym_list(e),
    });
    let res = ManuallyDrop::new(ResourceContext {
        kind: sym_str(r[0]),
        schema_ref: sym_str(r[1]),
        classification: sym_str(r[2]),
        element_id: sym_str(r[3]),
    });
    let got = scope_matches(&scope, &res);
    assert!(got == spec_scope_matches(&scope, &res), "OBL:C19.scope.every_list_covers");
    kani::cover!(got, "COVER:matches");
    kani::cover!(!got, "COVER:no_match");
}

macro_rules! scope_harness {
    ($name:ident, $k:expr, $s:expr, $c:expr, $e:expr, $r:expr) => {
        #[kani::proof]
        #[kani::unwind(4)]
        fn $name() {
            scope_block(&$k, &$s, &$c, &$e, $r);
            kani::cover!(true, "COVER:reach");
        }
    };
}

// every list bounded by one value, every resource field named
scope_harness!(c19_scope_matches_all_bounded, [1], [1], [1], [1], [1, 1, 1, 1]);
// mixed: unrestricted lists, two-element lists, an unnamed (empty) resource field
scope_harness!(c19_scope_matches_mixed_a, [], [1, 1], [2], [1], [1, 1, 2, 0]);
scope_harness!(c19_scope_matches_mixed_b, [1, 2], [], [], [2, 2], [2, 0, 1, 2]);
// nothing bounded: every resource is covered
scope_harness!(c19_scope_matches_unrestricted, [], [], [], [], [1, 0, 2, 1]);

// ---------------------------------------------------------------------------
// reaches_classification
// ---------------------------------------------------------------------------

const CLASS_POOL: [&str; 6] = ["", "public", "internal", "private", "sensitive", "secret"];

fn reaches_block(ceiling: String, label: String) {
    let c = ManuallyDrop::new(AuthorityConstraints {
        fields: Vec::new(),
        max_results: None,
        max_influence_authority: String::new(),
        max_classification: ceiling,
        export: false,
    });
    let r = ManuallyDrop::new(ResourceContext {
        kind: String::new(),
        schema_ref: String::new(),
        classification: label,
        element_id: String::new(),
    });
    let got = reaches_classification(&c, &r);
    assert!(got == spec_reaches(&c, &r), "OBL:C19.scope.classification_ceiling");
    if c.max_classification.len() == 0 {
        assert!(got, "OBL:C19.scope.classification_ceiling");
    }
}

/// Every (ceiling, label) pair of the documented labels incl. the absent label:
/// exhaustive over the named lattice. One harness per ceiling (a single harness with
/// all 36 concrete blocks took 39 s, almost all of it symbolic execution of the
/// string allocations; CBMC's cost grows faster than linearly in heap objects).
macro_rules! reaches_harness {
    ($name:ident, $ceiling:expr) => {
        #[kani::proof]
        #[kani::unwind(12)]
        fn $name() {
            let mut j = 0;
            while j < 6 {
                reaches_block(CLASS_POOL[$ceiling].to_string(), CLASS_POOL[j].to_string());
                j += 1;
            }
            kani::cover!(true, "COVER:reach");
        }
    };
}
reaches_harness!(c19_scope_reaches_no_ceiling, 0);
reaches_harness!(c19_scope_reaches_ceiling_public, 1);
reaches_harness!(c19_scope_reaches_ceiling_internal, 2);
reaches_harness!(c19_scope_reaches_ceiling_private, 3);
reaches_harness!(c19_scope_reaches_ceiling_sensitive, 4);
reaches_harness!(c19_scope_reaches_ceiling_secret, 5);

/// An unrecognized label (any 2 ASCII bytes — no documented label is that short)
/// is above every ceiling that names a known label, and an unrecognized ceiling
/// reaches everything known.
#[kani::proof]
#[kani::unwind(12)]
fn c19_scope_reaches_unknown_label() {
    let mut i = 1;
    while i < 6 {
        let c = ManuallyDrop::new(AuthorityConstraints {
            fields: Vec::new(),
            max_results: None,
            max_influence_authority: String::new(),
            max_classification: CLASS_POOL[i].to_string(),
            export: false,
        });
        let r = ManuallyDrop::new(ResourceContext {
            kind: String::new(),
            schema_ref: String::new(),
            classification: sym_str(2),
            element_id: String::new(),
        });
        assert!(!reaches_classification(&c, &r), "OBL:C19.scope.unknown_label_above_every_ceiling");
        i += 1;
    }
    reaches_block(sym_str(2), sym_str(2));
    reaches_block(sym_str(2), "secret".to_string());
    kani::cover!(true, "COVER:reach");
}

// ---------------------------------------------------------------------------
// conditions_hold
// ---------------------------------------------------------------------------

fn cond_check(c: &AuthorityConditions, a: &AuthContext, now: &str) -> bool {
    let got = conditions_hold(c, a, now);
    // the property's sentences, one obligation each (necessary conditions) ...
    if c.valid_from.len() != 0 && lex_lt(now, &c.valid_from) {
        assert!(!got, "OBL:C19.scope.not_before_valid_from");
    }
    if c.valid_until.len() != 0 && !lex_lt(now, &c.valid_until) {
        assert!(!got, "OBL:C19.scope.expiry_instant");
    }
    if spec_strength(&a.auth_strength) < spec_strength(&c.min_auth_strength) {
        assert!(!got, "OBL:C19.scope.auth_strength_bar");
    }
    if spec_assurance(&a.purpose_assurance) < spec_assurance(&c.min_purpose_assurance) {
        assert!(!got, "OBL:C19.scope.purpose_assurance_bar");
    }
    if c.purpose.len() != 0 && !listed(&c.purpose, &a.purpose) {
        assert!(!got, "OBL:C19.scope.purpose_listed");
    }
    // ... and nothing else refuses (iff)
    assert!(got == spec_conditions_hold(c, a, now), "OBL:C19.scope.conditions_iff");
    got
}

/// Validity window, all three instants symbolic 2-byte strings (so `now` equal to,
/// before and after each end all occur); presence of each end enumerated.
macro_rules! window_harness {
    ($name:ident, $from:expr, $until:expr) => {
        #[kani::proof]
        #[kani::unwind(4)]
        fn $name() {
            let c = conditions(Vec::new(), "", "", sym_str($from), sym_str($until));
            let a = auth_ctx("", "", String::new());
            let now = ManuallyDrop::new(sym_str(2));
            let got = cond_check(&c, &a, &now);
            kani::cover!(got, "COVER:holds");
            kani::cover!(!got, "COVER:refused");
            kani::cover!(true, "COVER:reach");
        }
    };
}
window_harness!(c19_scope_window_both, 2, 2);
window_harness!(c19_scope_window_from_only, 2, 0);
window_harness!(c19_scope_window_until_only, 0, 2);

/// Real, full-width normalized timestamps from an ordered pool: the instant of
/// expiry itself, one millisecond before, one after.
#[kani::proof]
#[kani::unwind(26)]
fn c19_scope_window_real_timestamps() {
    const T: [&str; 3] = ["2026-09-01T00:00:00.000Z", "2026-09-01T00:00:00.001Z", "2026-09-01T00:00:00.002Z"];
    let a = auth_ctx("", "", String::new());
    let mut n = 0;
    while n < 3 {
        let c = conditions(Vec::new(), "", "", T[0].to_string(), T[1].to_string());
        let got = cond_check(&c, &a, T[n]);
        // in force exactly on [valid_from, valid_until)
        assert!(got == (n == 0), "OBL:C19.scope.expiry_instant");
        n += 1;
    }
    kani::cover!(true, "COVER:reach");
}

const STRENGTH_POOL: [&str; 4] = ["", "none", "standard", "strong"];
const ASSURANCE_POOL: [&str; 5] = ["", "declared", "session_bound", "system_bound", "approved"];

/// Authentication strength: every (caller, bar) pair of the documented ladder
/// (one harness per caller strength), plus an unrecognized caller strength
/// (2 symbolic bytes) against every bar.
macro_rules! strength_harness {
    ($name:ident, $caller:expr) => {
        #[kani::proof]
        #[kani::unwind(10)]
        fn $name() {
            let mut j = 0;
            while j < 4 {
                let c = conditions(Vec::new(), "", STRENGTH_POOL[j], String::new(), String::new());
                let a = auth_ctx(STRENGTH_POOL[$caller], "", String::new());
                let got = cond_check(&c, &a, "");
                // the documented ladder: "" = none < standard < strong
                let rank = |k: usize| if k == 0 { 0 } else { k - 1 };
                assert!(got == (rank($caller) >= rank(j)), "OBL:C19.scope.auth_strength_bar");
                j += 1;
            }
            kani::cover!(true, "COVER:reach");
        }
    };
}
strength_harness!(c19_scope_auth_strength_absent, 0);
strength_harness!(c19_scope_auth_strength_none, 1);
strength_harness!(c19_scope_auth_strength_standard, 2);
strength_harness!(c19_scope_auth_strength_strong, 3);

#[kani::proof]
#[kani::unwind(10)]
fn c19_scope_auth_strength_unrecognized() {
    let mut j = 0;
    while j < 4 {
        let c = conditions(Vec::new(), "", STRENGTH_POOL[j], String::new(), String::new());
        let mut a = auth_ctx("", "", String::new());
        a.auth_strength = sym_str(2);
        let got = cond_check(&c, &a, "");
        // an invented strength satisfies no stated bar above `none`
        assert!(got == (j < 2), "OBL:C19.scope.auth_strength_bar");
        j += 1;
    }
    kani::cover!(true, "COVER:reach");
}

/// Purpose assurance: every (caller, bar) pair of the documented ladder, one
/// harness per caller assurance.
macro_rules! assurance_harness {
    ($name:ident, $caller:expr) => {
        #[kani::proof]
        #[kani::unwind(15)]
        fn $name() {
            let mut j = 0;
            while j < 5 {
                let c = conditions(Vec::new(), ASSURANCE_POOL[j], "", String::new(), String::new());
                let a = auth_ctx("", ASSURANCE_POOL[$caller], String::new());
                let got = cond_check(&c, &a, "");
                // "" = declared < session_bound < system_bound < approved
                let rank = |k: usize| if k == 0 { 0 } else { k - 1 };
                assert!(got == (rank($caller) >= rank(j)), "OBL:C19.scope.purpose_assurance_bar");
                j += 1;
            }
            kani::cover!(true, "COVER:reach");
        }
    };
}
assurance_harness!(c19_scope_assurance_absent, 0);
assurance_harness!(c19_scope_assurance_declared, 1);
assurance_harness!(c19_scope_assurance_session_bound, 2);
assurance_harness!(c19_scope_assurance_system_bound, 3);
assurance_harness!(c19_scope_assurance_approved, 4);

/// Purpose list: lengths enumerated, bytes symbolic.
macro_rules! purpose_harness {
    ($name:ident, $list:expr, $p:expr) => {
        #[kani::proof]
        #[kani::unwind(4)]
        fn $name() {
            let c = conditions(sym_list(&$list), "", "", String::new(), String::new());
            let a = auth_ctx("", "", sym_str($p));
            let got = cond_check(&c, &a, "");
            kani::cover!(got, "COVER:holds");
            kani::cover!(!got, "COVER:refused");
            kani::cover!(true, "COVER:reach");
        }
    };
}
purpose_harness!(c19_scope_purpose_one, [1], 1);
purpose_harness!(c19_scope_purpose_two, [2, 2], 2);
purpose_harness!(c19_scope_purpose_undeclared, [1, 1], 0);

/// Everything stated at once: window, both bars and a purpose list, with the
/// payload symbolic and the rank names concrete.
macro_rules! combined_harness {
    ($name:ident, $st:expr, $minst:expr, $as:expr, $minas:expr) => {
        #[kani::proof]
        #[kani::unwind(14)]
        fn $name() {
            let c = conditions(sym_list(&[1]), $minas, $minst, sym_str(1), sym_str(1));
            let a = auth_ctx($st, $as, sym_str(1));
            let now = ManuallyDrop::new(sym_str(1));
            let got = cond_check(&c, &a, &now);
            kani::cover!(got, "COVER:holds");
            kani::cover!(!got, "COVER:refused");
            kani::cover!(true, "COVER:reach");
        }
    };
}
combined_harness!(c19_scope_combined_pass, "strong", "standard", "approved", "session_bound");
combined_harness!(c19_scope_combined_weak_auth, "standard", "strong", "approved", "session_bound");
combined_harness!(c19_scope_combined_weak_purpose, "strong", "standard", "declared", "system_bound");
