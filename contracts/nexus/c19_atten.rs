//! C19.atten — the attenuation lattice checked when a Delegation is resolved:
//! `AuthorityScope::contains`, `AuthorityConditions::contains`,
//! `AuthorityConstraints::contains` and their private leaves `narrows`, `at_least`,
//! `at_most`, `within_ceiling` (rs/anda_cognitive_nexus/src/governance/rows.rs).
//!
//! Hosted as a child module of `governance::decision` (cfg(kani), scratch copy
//! only) because the contract is RELATIONAL between the two files: the property
//! says "a delegation never confers more than its delegator currently holds", i.e.
//!
//!     parent.contains(child)  ==>  for every request: child matches ==> parent matches
//!
//! where "matches" is the REAL `scope_matches` / `conditions_hold` /
//! `reaches_classification` of decision.rs (private, visible from here) and
//! `contains` is the REAL public method of rows.rs; the private leaves are reached
//! through the `contains` methods, their only callers. No look-alike of either side.
//!
//! In particular an empty (= unrestricted) child list / absent child bound under a
//! restricted parent must be refused, because some request separates the two.
#[path = "c19_common.rs"]
mod common;
use super::*;
use common::{auth_ctx, conditions, sym_list, sym_str};
use core::mem::ManuallyDrop;

// ---------------------------------------------------------------------------
// scope
// ---------------------------------------------------------------------------

fn scope_with(field: usize, lens: &[usize]) -> ManuallyDrop<AuthorityScope> {
    let mut s = AuthorityScope { kinds: Vec::new(), schema_refs: Vec::new(), classifications: Vec::new(), elements: Vec::new() };
    let list = sym_list(lens);
    match field {
        0 => s.kinds = list,
        1 => s.schema_refs = list,
        2 => s.classifications = list,
        _ => s.elements = list,
    }
    ManuallyDrop::new(s)
}

fn field_len(s: &AuthorityScope, field: usize) -> usize {
    match field {
        0 => s.kinds.len(),
        1 => s.schema_refs.len(),
        2 => s.classifications.len(),
        _ => s.elements.len(),
    }
}

/// One scope field restricted on either side (the other three unrestricted), the
/// resource naming all four fields with symbolic 1-byte values.
fn scope_block(field: usize, pl: &[usize], cl: &[usize], value_len: usize) {
    let p = scope_with(field, pl);
    let c = scope_with(field, cl);
    let mut lens = [1usize; 4];
    lens[field] = value_len;
    let r = ManuallyDrop::new(ResourceContext {
        kind: sym_str(lens[0]),
        schema_ref: sym_str(lens[1]),
        classification: sym_str(lens[2]),
        element_id: sym_str(lens[3]),
    });
    let contained = p.contains(&c);
    if contained && scope_matches(&c, &r) {
        assert!(scope_matches(&p, &r), "OBL:C19.atten.scope");
    }
    if field_len(&p, field) != 0 && field_len(&c, field) == 0 {
        assert!(!contained, "OBL:C19.atten.unrestricted_child_refused");
    }
    kani::cover!(contained, "COVER:contained");
    kani::cover!(!contained, "COVER:refused");
}

macro_rules! scope_atten {
    ($name:ident, $field:expr, $pl:expr, $cl:expr) => {
        #[kani::proof]
        #[kani::unwind(4)]
        fn $name() {
            scope_block($field, &$pl, &$cl, 1);
            scope_block($field, &$pl, &$cl, 0);
            kani::cover!(true, "COVER:reach");
        }
    };
}

// kinds: every (|parent|, |child|) shape with lists <= 2
scope_atten!(c19_atten_kinds_p0_c0, 0, [], []);
scope_atten!(c19_atten_kinds_p0_c1, 0, [], [1]);
scope_atten!(c19_atten_kinds_p0_c2, 0, [], [1, 1]);
scope_atten!(c19_atten_kinds_p1_c0, 0, [1], []);
scope_atten!(c19_atten_kinds_p1_c1, 0, [1], [1]);
scope_atten!(c19_atten_kinds_p1_c2, 0, [1], [1, 1]);
scope_atten!(c19_atten_kinds_p2_c0, 0, [1, 1], []);
scope_atten!(c19_atten_kinds_p2_c1, 0, [1, 1], [1]);
scope_atten!(c19_atten_kinds_p2_c2, 0, [1, 1], [1, 1]);
// the other three lists: the shapes that decide (empty child, subset, widening)
scope_atten!(c19_atten_schema_refs_p1_c0, 1, [1], []);
scope_atten!(c19_atten_schema_refs_p1_c1, 1, [1], [1]);
scope_atten!(c19_atten_schema_refs_p2_c2, 1, [1, 1], [1, 1]);
scope_atten!(c19_atten_classifications_p1_c0, 2, [1], []);
scope_atten!(c19_atten_classifications_p1_c1, 2, [1], [1]);
scope_atten!(c19_atten_classifications_p2_c2, 2, [1, 1], [1, 1]);
scope_atten!(c19_atten_elements_p1_c0, 3, [1], []);
scope_atten!(c19_atten_elements_p1_c1, 3, [1], [1]);
scope_atten!(c19_atten_elements_p2_c2, 3, [1, 1], [1, 1]);

/// All four lists bounded on both sides at once.
#[kani::proof]
#[kani::unwind(4)]
fn c19_atten_scope_all_fields() {
    let mk = || {
        ManuallyDrop::new(AuthorityScope {
            kinds: sym_list(&[1]),
            schema_refs: sym_list(&[1]),
            classifications: sym_list(&[1]),
            elements: sym_list(&[1]),
        })
    };
    let (p, c) = (mk(), mk());
    let r = ManuallyDrop::new(ResourceContext {
        kind: sym_str(1),
        schema_ref: sym_str(1),
        classification: sym_str(1),
        element_id: sym_str(1),
    });
    let contained = p.contains(&c);
    if contained && scope_matches(&c, &r) {
        assert!(scope_matches(&p, &r), "OBL:C19.atten.scope");
    }
    kani::cover!(contained && scope_matches(&c, &r), "COVER:contained_and_matching");
    kani::cover!(!contained, "COVER:refused");
    kani::cover!(true, "COVER:reach");
}

// ---------------------------------------------------------------------------
// conditions
// ---------------------------------------------------------------------------

fn cond_lemma(p: &AuthorityConditions, c: &AuthorityConditions, a: &AuthContext, now: &str) -> bool {
    let contained = p.contains(c);
    if contained && conditions_hold(c, a, now) {
        assert!(conditions_hold(p, a, now), "OBL:C19.atten.conditions");
    }
    contained
}

/// Validity window: presence of each of the four ends enumerated, the instants and
/// `now` symbolic 1-byte strings. A child that starts earlier or outlives its parent
/// (in particular: states no end under a parent that has one) must be refused.
macro_rules! window_atten {
    ($name:ident, $pf:expr, $pu:expr, $cf:expr, $cu:expr) => {
        #[kani::proof]
        #[kani::unwind(4)]
        fn $name() {
            let p = conditions(Vec::new(), "", "", sym_str($pf), sym_str($pu));
            let c = conditions(Vec::new(), "", "", sym_str($cf), sym_str($cu));
            let a = auth_ctx("", "", String::new());
            let now = ManuallyDrop::new(sym_str(1));
            let contained = cond_lemma(&p, &c, &a, &now);
            let child_drops_an_end = ($pu != 0 && $cu == 0) || ($pf != 0 && $cf == 0);
            assert!(!child_drops_an_end || !contained, "OBL:C19.atten.child_may_not_outlive_parent");
            kani::cover!(contained, "COVER:contained");
            kani::cover!(!contained, "COVER:refused");
            kani::cover!(true, "COVER:reach");
        }
    };
}
window_atten!(c19_atten_window_0000, 0, 0, 0, 0);
window_atten!(c19_atten_window_0011, 0, 0, 1, 1);
window_atten!(c19_atten_window_0100, 0, 1, 0, 0);
window_atten!(c19_atten_window_0101, 0, 1, 0, 1);
window_atten!(c19_atten_window_0110, 0, 1, 1, 0);
window_atten!(c19_atten_window_1000, 1, 0, 0, 0);
window_atten!(c19_atten_window_1010, 1, 0, 1, 0);
window_atten!(c19_atten_window_1001, 1, 0, 0, 1);
window_atten!(c19_atten_window_1100, 1, 1, 0, 0);
window_atten!(c19_atten_window_1101, 1, 1, 0, 1);
window_atten!(c19_atten_window_1110, 1, 1, 1, 0);
window_atten!(c19_atten_window_1111, 1, 1, 1, 1);

/// The same on real full-width timestamps 1 ms apart (parent ends at T1).
#[kani::proof]
#[kani::unwind(26)]
fn c19_atten_window_real_timestamps() {
    const T: [&str; 3] = ["2026-09-01T00:00:00.000Z", "2026-09-01T00:00:00.001Z", "2026-09-01T00:00:00.002Z"];
    let a = auth_ctx("", "", String::new());
    let p = conditions(Vec::new(), "", "", String::new(), T[1].to_string());
    let mut k = 0;
    while k < 3 {
        let c = conditions(Vec::new(), "", "", String::new(), T[k].to_string());
        let mut n = 0;
        while n < 3 {
            cond_lemma(&p, &c, &a, T[n]);
            n += 1;
        }
        // ending one millisecond after the parent is already an amplification
        assert!(p.contains(&c) == (k <= 1), "OBL:C19.atten.child_may_not_outlive_parent");
        k += 1;
    }
    kani::cover!(true, "COVER:reach");
}

const STRENGTH_POOL: [&str; 4] = ["", "none", "standard", "strong"];
const ASSURANCE_POOL: [&str; 5] = ["", "declared", "session_bound", "system_bound", "approved"];

/// Authentication bar: for a fixed parent bar, every child bar and every caller
/// strength of the documented ladder. A child may not lower the bar.
macro_rules! strength_atten {
    ($name:ident, $parent:expr) => {
        #[kani::proof]
        #[kani::unwind(10)]
        fn $name() {
            let p = conditions(Vec::new(), "", STRENGTH_POOL[$parent], String::new(), String::new());
            let callers = [
                auth_ctx(STRENGTH_POOL[1], "", String::new()),
                auth_ctx(STRENGTH_POOL[2], "", String::new()),
                auth_ctx(STRENGTH_POOL[3], "", String::new()),
            ];
            let mut j = 0;
            while j < 4 {
                let c = conditions(Vec::new(), "", STRENGTH_POOL[j], String::new(), String::new());
                let mut k = 0;
                while k < 3 {
                    cond_lemma(&p, &c, &callers[k], "");
                    k += 1;
                }
                j += 1;
            }
            kani::cover!(true, "COVER:reach");
        }
    };
}
strength_atten!(c19_atten_strength_parent_standard, 2);
strength_atten!(c19_atten_strength_parent_strong, 3);

macro_rules! assurance_atten {
    ($name:ident, $parent:expr) => {
        #[kani::proof]
        #[kani::unwind(15)]
        fn $name() {
            let p = conditions(Vec::new(), ASSURANCE_POOL[$parent], "", String::new(), String::new());
            let callers = [
                auth_ctx("", ASSURANCE_POOL[1], String::new()),
                auth_ctx("", ASSURANCE_POOL[2], String::new()),
                auth_ctx("", ASSURANCE_POOL[3], String::new()),
                auth_ctx("", ASSURANCE_POOL[4], String::new()),
            ];
            let mut j = 0;
            while j < 5 {
                let c = conditions(Vec::new(), ASSURANCE_POOL[j], "", String::new(), String::new());
                let mut k = 0;
                while k < 4 {
                    cond_lemma(&p, &c, &callers[k], "");
                    k += 1;
                }
                j += 1;
            }
            kani::cover!(true, "COVER:reach");
        }
    };
}
assurance_atten!(c19_atten_assurance_parent_session_bound, 2);
assurance_atten!(c19_atten_assurance_parent_system_bound, 3);
assurance_atten!(c19_atten_assurance_parent_approved, 4);

/// Purpose lists.
macro_rules! purpose_atten {
    ($name:ident, $pl:expr, $cl:expr) => {
        #[kani::proof]
        #[kani::unwind(4)]
        fn $name() {
            let p = conditions(sym_list(&$pl), "", "", String::new(), String::new());
            let c = conditions(sym_list(&$cl), "", "", String::new(), String::new());
            let a = auth_ctx("", "", sym_str(1));
            let contained = cond_lemma(&p, &c, &a, "");
            if p.purpose.len() != 0 && c.purpose.len() == 0 {
                assert!(!contained, "OBL:C19.atten.unrestricted_child_refused");
            }
            kani::cover!(contained, "COVER:contained");
            kani::cover!(!contained, "COVER:refused");
            kani::cover!(true, "COVER:reach");
        }
    };
}
purpose_atten!(c19_atten_purpose_p1_c0, [1], []);
purpose_atten!(c19_atten_purpose_p1_c1, [1], [1]);
purpose_atten!(c19_atten_purpose_p1_c2, [1], [1, 1]);
purpose_atten!(c19_atten_purpose_p2_c2, [1, 1], [1, 1]);

// ---------------------------------------------------------------------------
// constraints
// ---------------------------------------------------------------------------

fn constraints(fields: Vec<String>, max_results: Option<u64>, authority: &str, class: &str, export: bool) -> ManuallyDrop<AuthorityConstraints> {
    ManuallyDrop::new(AuthorityConstraints {
        fields,
        max_results,
        max_influence_authority: authority.to_string(),
        max_classification: class.to_string(),
        export,
    })
}

/// Export flag and result cap over their full domains (every bool, every u64,
/// presence of each cap enumerated).
#[kani::proof]
#[kani::unwind(5)]
fn c19_atten_export_and_max_results() {
    let (pe, ce): (bool, bool) = (kani::any(), kani::any());
    let (m, n): (u64, u64) = (kani::any(), kani::any());
    let caps: [(Option<u64>, Option<u64>); 4] = [(None, None), (None, Some(n)), (Some(m), None), (Some(m), Some(n))];
    let mut k = 0;
    while k < 4 {
        let p = constraints(Vec::new(), caps[k].0, "", "", pe);
        let c = constraints(Vec::new(), caps[k].1, "", "", ce);
        if p.contains(&c) {
            // a delegate may take results out of the Space only if the delegator may
            assert!(!c.export || p.export, "OBL:C19.atten.export");
            // a capped delegator confers a cap that is no larger
            if let Some(pm) = p.max_results {
                assert!(matches!(c.max_results, Some(cn) if cn <= pm), "OBL:C19.atten.max_results");
            }
        }
        k += 1;
    }
    kani::cover!(true, "COVER:reach");
}

const CLASS_POOL: [&str; 6] = ["", "public", "internal", "private", "sensitive", "secret"];

/// Classification ceiling: for a fixed parent ceiling, every child ceiling and every
/// resource label of the documented lattice (and the absent label).
macro_rules! ceiling_atten {
    ($name:ident, $parent:expr) => {
        #[kani::proof]
        #[kani::unwind(12)]
        fn $name() {
            let p = constraints(Vec::new(), None, "", CLASS_POOL[$parent], true);
            let labelled = |k: usize| {
                ManuallyDrop::new(ResourceContext {
                    kind: String::new(),
                    schema_ref: String::new(),
                    classification: CLASS_POOL[k].to_string(),
                    element_id: String::new(),
                })
            };
            let resources = [labelled(0), labelled(1), labelled(2), labelled(3), labelled(4), labelled(5)];
            let mut j = 0;
            while j < 6 {
                let c = constraints(Vec::new(), None, "", CLASS_POOL[j], true);
                let contained = p.contains(&c);
                let mut k = 0;
                while k < 6 {
                    if contained && reaches_classification(&c, &resources[k]) {
                        assert!(reaches_classification(&p, &resources[k]), "OBL:C19.atten.classification_ceiling");
                    }
                    k += 1;
                }
                if $parent != 0 && j == 0 {
                    assert!(!contained, "OBL:C19.atten.unrestricted_child_refused");
                }
                j += 1;
            }
            kani::cover!(true, "COVER:reach");
        }
    };
}
ceiling_atten!(c19_atten_ceiling_parent_public, 1);
ceiling_atten!(c19_atten_ceiling_parent_internal, 2);
ceiling_atten!(c19_atten_ceiling_parent_private, 3);
ceiling_atten!(c19_atten_ceiling_parent_sensitive, 4);
ceiling_atten!(c19_atten_ceiling_parent_secret, 5);

const AUTHORITY_POOL: [&str; 5] = ["", "descriptive", "advisory", "behavioral", "executable"];

/// The documented influence ladder: descriptive < advisory < behavioral < executable;
/// no ceiling stated = executable (`authority_ceiling`).
fn spec_authority(s: &str) -> u8 {
    let b = s.as_bytes();
    if b.len() == 0 {
        return 3;
    }
    match b[0] {
        b'e' => 3,
        b'b' => 2,
        b'a' => 1,
        _ => 0,
    }
}

/// Influence-authority ceiling: the ceiling a contained child imposes
/// (`authority_ceiling`, the real accessor) is never above its parent's.
macro_rules! authority_atten {
    ($name:ident, $parent:expr) => {
        #[kani::proof]
        #[kani::unwind(13)]
        fn $name() {
            let p = constraints(Vec::new(), None, AUTHORITY_POOL[$parent], "", true);
            let mut j = 0;
            while j < 5 {
                let c = constraints(Vec::new(), None, AUTHORITY_POOL[j], "", true);
                if p.contains(&c) {
                    assert!(
                        spec_authority(authority_ceiling(&c)) <= spec_authority(authority_ceiling(&p)),
                        "OBL:C19.atten.influence_ceiling"
                    );
                }
                j += 1;
            }
            kani::cover!(true, "COVER:reach");
        }
    };
}
authority_atten!(c19_atten_authority_parent_descriptive, 1);
authority_atten!(c19_atten_authority_parent_advisory, 2);
authority_atten!(c19_atten_authority_parent_behavioral, 3);
authority_atten!(c19_atten_authority_parent_executable, 4);

/// Field mask: a field the child's mask lets through (empty mask = every field) is
/// one the parent's mask lets through.
fn admits(mask: &[String], field: &str) -> bool {
    if mask.len() == 0 {
        return true;
    }
    let mut i = 0;
    while i < mask.len() {
        if mask[i].as_bytes() == field.as_bytes() {
            return true;
        }
        i += 1;
    }
    false
}

macro_rules! fields_atten {
    ($name:ident, $pl:expr, $cl:expr) => {
        #[kani::proof]
        #[kani::unwind(4)]
        fn $name() {
            let p = constraints(sym_list(&$pl), None, "", "", true);
            let c = constraints(sym_list(&$cl), None, "", "", true);
            let f = ManuallyDrop::new(sym_str(1));
            let contained = p.contains(&c);
            if contained && admits(&c.fields, &f) {
                assert!(admits(&p.fields, &f), "OBL:C19.atten.field_mask");
            }
            if p.fields.len() != 0 && c.fields.len() == 0 {
                assert!(!contained, "OBL:C19.atten.unrestricted_child_refused");
            }
            kani::cover!(contained, "COVER:contained");
            kani::cover!(!contained, "COVER:refused");
            kani::cover!(true, "COVER:reach");
        }
    };
}
fields_atten!(c19_atten_fields_p1_c0, [1], []);
fields_atten!(c19_atten_fields_p1_c1, [1], [1]);
fields_atten!(c19_atten_fields_p2_c2, [1, 1], [1, 1]);
