//! C20.identity — "the answer names the policy that produced it": the override
//! kernel of `Policy::from_settings` (rs/anda_cognitive_nexus/src/projection/policy.rs).
//! Added after seed C20c (a `modes` override no longer marking the policy as
//! customised) slipped through: C20.policy had the threshold arm and the coherence
//! check under contract, not the identity rule.
//!
//! The statements from `let mut overridden = false;` to the end of
//! `if overridden { .. }` are copied VERBATIM (every run) into a free function.
//! Stand-ins with ASSUMED contracts (the real ones take a serde_json `Map`, which
//! CBMC does not get through — 15 min without verdict, DESIGN §10): `settings.get`,
//! `threshold` (its Number arm is under contract in C20.policy), `parse_modes`.
//! `format!` is stubbed (core::fmt on f64 / String is the dominant CBMC cost): the
//! stub returns a one-character string, ASSUMING only that
//! `format!("{}+custom", id) != id`.
use super::*;
use core::mem::ManuallyDrop;

pub(super) struct VerifJson(Vec<AssertionMode>);
pub(super) struct VerifSettings {
    accept: Option<f64>,
    material: Option<f64>,
    modes: Option<VerifJson>,
}
impl VerifSettings {
    fn get(&self, key: &str) -> Option<&VerifJson> {
        if key.len() == 5 { self.modes.as_ref() } else { None }
    }
}
/// ASSUMED contract of `threshold`: the validated value of the key, if given.
fn threshold(settings: &VerifSettings, key: &str) -> Result<Option<f64>, KipError> {
    // "accept" has 6 bytes, "material" 8
    Ok(if key.len() == 6 { settings.accept } else { settings.material })
}
/// ASSUMED contract of `parse_modes`: the listed modes.
fn parse_modes(value: &VerifJson) -> Result<Vec<AssertionMode>, KipError> {
    let mut v = Vec::with_capacity(1);
    if !value.0.is_empty() {
        v.push(value.0[0]);
    }
    Ok(v)
}

fn verif_fmt(_args: core::fmt::Arguments<'_>) -> String {
    String::from("+")
}

#[allow(unused_mut)]
fn verif_override_kernel(settings: &VerifSettings, mut policy: Policy) -> Result<Policy, KipError> {
/*@EXTRACT:override_kernel@*/
    Ok(policy)
}

fn same_modes(a: &[AssertionMode], b: &[AssertionMode]) -> bool {
    if a.len() != b.len() {
        return false;
    }
    let mut i = 0;
    while i < a.len() {
        if a[i] != b[i] {
            return false;
        }
        i += 1;
    }
    true
}

fn any_mode() -> AssertionMode {
    let i: u8 = kani::any();
    match i % 6 {
        0 => AssertionMode::Observed,
        1 => AssertionMode::Stated,
        2 => AssertionMode::Inferred,
        3 => AssertionMode::Predicted,
        4 => AssertionMode::Hypothetical,
        _ => AssertionMode::Imported,
    }
}

fn identity_case(base: Policy, modes: Option<VerifJson>) {
    let base = ManuallyDrop::new(base);
    let (base_accept, base_material) = (base.accept, base.material);
    let base_id_len = base.id.len();
    let accept: Option<f64> = kani::any();
    let material: Option<f64> = kani::any();
    // what `threshold` hands back is a validated score boundary
    kani::assume(accept.is_none_or(|v| (0.0..=1.0).contains(&v)));
    kani::assume(material.is_none_or(|v| (0.0..=1.0).contains(&v)));
    let settings = ManuallyDrop::new(VerifSettings { accept, material, modes });
    let start = ManuallyDrop::new(Policy {
        id: String::from("b"),
        version: base.version,
        modes: {
            let mut v = Vec::with_capacity(base.modes.len());
            let mut i = 0;
            while i < base.modes.len() {
                v.push(base.modes[i]);
                i += 1;
            }
            v
        },
        accept: base.accept,
        material: base.material,
        unstated_confidence: base.unstated_confidence,
        expand_conflicts: base.expand_conflicts,
    });
    let _ = base_id_len;
    let r = ManuallyDrop::new(verif_override_kernel(&settings, ManuallyDrop::into_inner(start)));
    if let Ok(p) = &*r {
        let differs = p.accept != base_accept || p.material != base_material || !same_modes(&p.modes, &base.modes);
        // a policy that answers differently from the named one does not carry its name
        // (the named policy's id is "b" here; the stubbed format! yields "+")
        let renamed = !(p.id.len() == 1 && p.id.as_bytes()[0] == b'b');
        assert!(!differs || renamed, "OBL:C20.identity.custom_policy_is_not_named_as_the_base");
        // and the settings that were given are the ones in force
        assert!(accept.is_none_or(|v| p.accept == v) && material.is_none_or(|v| p.material == v), "OBL:C20.identity.given_settings_are_in_force");
        if let Some(m) = &settings.modes {
            assert!(same_modes(&p.modes, &m.0), "OBL:C20.identity.given_settings_are_in_force");
        }
        kani::cover!(differs && accept.is_none() && material.is_none(), "COVER:modes_only_override");
        kani::cover!(!differs, "COVER:unchanged");
    }
    kani::cover!(r.is_err(), "COVER:incoherent_rejected");
    kani::cover!(true, "COVER:reach");
}

#[kani::proof]
#[kani::unwind(6)]
#[kani::stub(alloc::fmt::format, verif_fmt)]
fn c20_identity_baseline_modes_given() {
    let mut m = Vec::with_capacity(1);
    m.push(any_mode());
    identity_case(Policy::baseline(), Some(VerifJson(m)));
}

#[kani::proof]
#[kani::unwind(6)]
#[kani::stub(alloc::fmt::format, verif_fmt)]
fn c20_identity_baseline_modes_absent() {
    identity_case(Policy::baseline(), None);
}

#[kani::proof]
#[kani::unwind(6)]
#[kani::stub(alloc::fmt::format, verif_fmt)]
fn c20_identity_forecast_modes_given() {
    let mut m = Vec::with_capacity(1);
    m.push(any_mode());
    identity_case(Policy::forecast(), Some(VerifJson(m)));
}
