//! C19.gate — the command -> permission tables of
//! rs/anda_cognitive_nexus/src/governance/gate.rs: `clause_permissions`,
//! `kml_permissions`, `kql_permissions`, `meta_permissions`.
//!
//! Child module of `governance::gate` (cfg(kani), scratch copy only).
//!
//! The expected sets below are written from the documented meaning of each clause
//! (anda_kip AST doc comments, SPECIFICATION §29) and of each permission (the
//! one-line descriptions in governance/permission.rs, docs/anda_cognitive_nexus.md
//! §10), NOT from the body of the functions:
//!
//!   create            "create Concepts, Propositions, Evidence and Activities"
//!   update            "change mutable, non-protected fields of an existing element"
//!   assert            "record one's own epistemic commitment" (the floor for an Assertion)
//!   retract_own / supersede_own   "retract / supersede an Assertion ..."
//!   maintain          "perform custodial consolidation and repair"
//!   merge_identity    "consolidate two Concepts into one identity"
//!   manage_retention  "set or change how long an element is retained"
//!   archive / tombstone / purge   three different removals (tombstone != purge)
//!   export            "take cognition out of the Space" (read != export)
//!   read_history      "read past element versions and change streams"
//!   project           "run an Epistemic Projection"
//!   search / discover "retrieve associatively" / "learn that an element exists"
//!
//! Every table cell is a concrete AST value of that variant (the functions look at
//! the variant only); the tables are finite, so enumerating the variants is
//! exhaustive.
use super::*;
use anda_kip::{
    AsOf, BeliefTarget, ChangesCommand, ConceptCreate, ConceptUpsert, CorrectEvidence, ElementRef,
    EnsureProposition, ExportCapsuleCommand, HistoryCommand, ListCommand, ListTarget, MergeConcept,
    PredAtom, PreviewCommand, PurgeStatement, RecordCreate, RemovalStatement, RetractAssertion,
    Scalar, SearchCommand, SearchTarget, SetRetention, SupersedeAssertion, Term,
    TransitionActivity, UpdateStatement, ValidateCommand, ValidateTarget, VerifyTarget,
};
use core::mem::ManuallyDrop;
use std::collections::BTreeMap;

use Permission as P;

fn has(set: &[Permission], p: Permission) -> bool {
    let mut i = 0;
    while i < set.len() {
        if set[i] == p {
            return true;
        }
        i += 1;
    }
    false
}

fn subset(a: &[Permission], b: &[Permission]) -> bool {
    let mut i = 0;
    while i < a.len() {
        if !has(b, a[i]) {
            return false;
        }
        i += 1;
    }
    true
}

fn same_set(a: &[Permission], b: &[Permission]) -> bool {
    subset(a, b) && subset(b, a)
}

/// A `Vec` whose buffer is a harness-owned array instead of a heap block.
///
/// The functions under contract take the AST by shared reference, so they can
/// neither grow nor free this buffer, and the harness keeps it in `ManuallyDrop`;
/// reading it yields exactly the elements of the array. It exists because CBMC
/// pays ~25x more for one of these large AST enums stored in an (untyped) heap
/// object than in a typed local (measured: `kql_permissions` on one BELIEF pattern
/// 160 s of symbolic execution with `vec![..]`, 6 s with this buffer).
fn borrowed_vec<T, const N: usize>(items: &ManuallyDrop<[T; N]>) -> Vec<T> {
    if N == 0 {
        return Vec::new();
    }
    unsafe { Vec::from_raw_parts(items.as_ptr() as *mut T, N, N) }
}

fn sc() -> Scalar {
    Scalar::Param(String::new())
}

fn er() -> ElementRef {
    ElementRef::Id(String::new())
}

fn var() -> Term {
    Term::Variable(String::new())
}

// ---------------------------------------------------------------------------
// one concrete value per MutationClause variant (16)
// ---------------------------------------------------------------------------

fn c_create_concept() -> MutationClause {
    MutationClause::CreateConcept(ConceptCreate::default())
}
fn c_upsert_concept() -> MutationClause {
    MutationClause::UpsertConcept(ConceptUpsert::default())
}
fn c_ensure_proposition() -> MutationClause {
    MutationClause::EnsureProposition(EnsureProposition {
        handle: None,
        subject: var(),
        predicate: PredAtom::Literal(String::new()),
        object: var(),
        expect_version: None,
    })
}
fn c_create_evidence() -> MutationClause {
    MutationClause::CreateEvidence(RecordCreate::default())
}
fn c_create_assertion() -> MutationClause {
    MutationClause::CreateAssertion(RecordCreate::default())
}
fn c_create_activity() -> MutationClause {
    MutationClause::CreateActivity(RecordCreate::default())
}
fn c_update() -> MutationClause {
    MutationClause::Update(UpdateStatement {
        target: er(),
        expect_version: None,
        actions: Vec::new(),
        where_clauses: None,
        limit: None,
    })
}
fn c_retract() -> MutationClause {
    MutationClause::RetractAssertion(RetractAssertion {
        target: er(),
        where_clauses: None,
        limit: None,
        expect_state: None,
    })
}
fn c_supersede() -> MutationClause {
    MutationClause::SupersedeAssertion(SupersedeAssertion { target: er(), by: er(), expect_state: None })
}
fn c_correct_evidence() -> MutationClause {
    MutationClause::CorrectEvidence(CorrectEvidence { target: er(), by: er(), expect_state: None })
}
fn c_transition() -> MutationClause {
    MutationClause::TransitionActivity(TransitionActivity {
        target: er(),
        to: sc(),
        set_fields: None,
        set_structural: None,
        expect_state: None,
    })
}
fn c_set_retention() -> MutationClause {
    MutationClause::SetRetention(SetRetention {
        target: er(),
        values: Vec::new(),
        where_clauses: None,
        limit: None,
        expect_version: None,
    })
}
fn removal() -> RemovalStatement {
    RemovalStatement { target: er(), where_clauses: None, limit: None, expect_state: None }
}
fn c_archive() -> MutationClause {
    MutationClause::Archive(removal())
}
fn c_tombstone() -> MutationClause {
    MutationClause::Tombstone(removal())
}
fn c_purge() -> MutationClause {
    MutationClause::Purge(PurgeStatement {
        target: er(),
        where_clauses: None,
        limit: None,
        reference_policy: None,
        confirm: String::new(),
    })
}
fn c_merge() -> MutationClause {
    MutationClause::MergeConcept(MergeConcept { source: er(), into: er(), where_clauses: None, expect_version: None })
}

/// One table cell: the clause alone and as a one-clause statement.
fn cell(clause: MutationClause, expected: &[Permission]) {
    let clauses = ManuallyDrop::new([clause]);
    let got = ManuallyDrop::new(clause_permissions(&clauses[0]));
    assert!(got.len() != 0, "OBL:C19.gate.no_ungoverned_clause");
    // the documented table is a floor: asking for MORE than it never breaks C19
    assert!(subset(expected, &got), "OBL:C19.gate.clause_table");
    let stmt = ManuallyDrop::new(KmlStatement { explicit_transaction: kani::any(), clauses: borrowed_vec(&clauses) });
    let all = ManuallyDrop::new(kml_permissions(&stmt));
    assert!(subset(expected, &all), "OBL:C19.gate.kml_union");
}

// One harness per table cell: moving these large AST enums is what CBMC pays for
// (measured: one MutationClause construction = 52k symex steps / 4.4 s; four cells in
// one harness 94-160 s), so the cells run as separate small harnesses.
macro_rules! clause_cell {
    ($name:ident, $clause:expr, $expected:expr) => {
        #[kani::proof]
        #[kani::unwind(4)]
        fn $name() {
            cell($clause, &$expected);
            kani::cover!(true, "COVER:reach");
        }
    };
}

clause_cell!(c19_gate_clause_create_concept, c_create_concept(), [P::Create]);
clause_cell!(c19_gate_clause_ensure_proposition, c_ensure_proposition(), [P::Create]);
clause_cell!(c19_gate_clause_create_evidence, c_create_evidence(), [P::Create]);
clause_cell!(c19_gate_clause_create_activity, c_create_activity(), [P::Create]);
// resolve-or-create: either may happen, both are asked for
clause_cell!(c19_gate_clause_upsert_concept, c_upsert_concept(), [P::Create, P::Update]);
clause_cell!(c19_gate_clause_update, c_update(), [P::Update]);
clause_cell!(c19_gate_clause_transition_activity, c_transition(), [P::Update]);
clause_cell!(c19_gate_clause_set_retention, c_set_retention(), [P::ManageRetention]);
clause_cell!(c19_gate_clause_create_assertion, c_create_assertion(), [P::Assert]);
clause_cell!(c19_gate_clause_retract_assertion, c_retract(), [P::RetractOwn]);
clause_cell!(c19_gate_clause_supersede_assertion, c_supersede(), [P::SupersedeOwn]);
// writes a new record (create) as custodial repair of an immutable one (maintain)
clause_cell!(c19_gate_clause_correct_evidence, c_correct_evidence(), [P::Create, P::Maintain]);
clause_cell!(c19_gate_clause_archive, c_archive(), [P::Archive]);
clause_cell!(c19_gate_clause_tombstone, c_tombstone(), [P::Tombstone]);
clause_cell!(c19_gate_clause_purge, c_purge(), [P::Purge]);
clause_cell!(c19_gate_clause_merge_concept, c_merge(), [P::MergeIdentity, P::Maintain]);

/// Two-clause statements: the statement asks for every permission either clause
/// asks for (pairs with disjoint and with overlapping sets).
fn pair(a: MutationClause, b: MutationClause, ea: &[Permission], eb: &[Permission]) {
    let clauses = ManuallyDrop::new([a, b]);
    let stmt = ManuallyDrop::new(KmlStatement { explicit_transaction: true, clauses: borrowed_vec(&clauses) });
    let all = ManuallyDrop::new(kml_permissions(&stmt));
    assert!(subset(ea, &all) && subset(eb, &all), "OBL:C19.gate.kml_union");
}

macro_rules! kml_pair {
    ($name:ident, $a:expr, $b:expr, $ea:expr, $eb:expr) => {
        #[kani::proof]
        #[kani::unwind(6)]
        fn $name() {
            pair($a, $b, &$ea, &$eb);
            kani::cover!(true, "COVER:reach");
        }
    };
}

kml_pair!(c19_gate_kml_create_archive, c_create_concept(), c_archive(), [P::Create], [P::Archive]);
kml_pair!(c19_gate_kml_tombstone_purge, c_tombstone(), c_purge(), [P::Tombstone], [P::Purge]);
kml_pair!(c19_gate_kml_upsert_update, c_upsert_concept(), c_update(), [P::Create, P::Update], [P::Update]);
kml_pair!(c19_gate_kml_merge_correct, c_merge(), c_correct_evidence(), [P::MergeIdentity, P::Maintain], [P::Create, P::Maintain]);

// ---------------------------------------------------------------------------
// KQL
// ---------------------------------------------------------------------------

fn w_concept() -> WhereClause {
    WhereClause::Concept { variable: String::new(), matcher: BTreeMap::new() }
}
fn w_belief() -> WhereClause {
    WhereClause::Belief { variable: String::new(), target: BeliefTarget::Proposition(String::new()) }
}
fn w_belief_slot() -> WhereClause {
    WhereClause::BeliefSlot { variable: String::new(), subject: var(), predicate: PredAtom::Literal(String::new()) }
}

fn kql<const N: usize>(patterns: [WhereClause; N], as_of: Option<AsOf>, projects: bool) {
    let patterns = ManuallyDrop::new(patterns);
    let historical = as_of.is_some();
    let q = ManuallyDrop::new(KqlQuery {
        find_clause: Default::default(),
        where_clauses: borrowed_vec(&patterns),
        as_of,
        for_time: None,
        epistemic: None,
        order_by: None,
        limit: None,
        cursor: None,
    });
    let got = ManuallyDrop::new(kql_permissions(&q));
    assert!(has(&got, P::Read), "OBL:C19.gate.kql_read_always");
    assert!(!historical || has(&got, P::ReadHistory), "OBL:C19.gate.kql_history_iff_as_of");
    assert!(!projects || has(&got, P::Project), "OBL:C19.gate.kql_project_iff_belief");
}

/// NOT / OPTIONAL / UNION blocks, their inner patterns in a harness-owned buffer too.
fn not_block<const N: usize>(inner: &ManuallyDrop<[WhereClause; N]>) -> WhereClause {
    WhereClause::Not(borrowed_vec(inner))
}
fn optional_block<const N: usize>(inner: &ManuallyDrop<[WhereClause; N]>) -> WhereClause {
    WhereClause::Optional(borrowed_vec(inner))
}
fn union_block<const N: usize>(inner: &ManuallyDrop<[WhereClause; N]>) -> WhereClause {
    WhereClause::Union(borrowed_vec(inner))
}

macro_rules! kql_case {
    ($name:ident, $where:expr, $as_of:expr, $projects:expr) => {
        #[kani::proof]
        #[kani::unwind(4)]
        fn $name() {
            kql($where, $as_of, $projects);
            kani::cover!(true, "COVER:reach");
        }
    };
}

kql_case!(c19_gate_kql_plain, [w_concept()], None, false);
kql_case!(c19_gate_kql_no_pattern, [], None, false);
kql_case!(c19_gate_kql_as_of_seq, [w_concept()], Some(AsOf::Seq(sc())), false);
kql_case!(c19_gate_kql_as_of_tx, [], Some(AsOf::Tx(sc())), false);
kql_case!(c19_gate_kql_as_of_time, [], Some(AsOf::Time(sc())), false);
kql_case!(c19_gate_kql_belief, [w_belief()], None, true);
kql_case!(c19_gate_kql_belief_slot_second, [w_concept(), w_belief_slot()], None, true);
kql_case!(c19_gate_kql_belief_historical, [w_belief_slot()], Some(AsOf::Seq(sc())), true);

// depth 1: inside NOT / OPTIONAL / UNION
#[kani::proof]
#[kani::unwind(4)]
fn c19_gate_kql_belief_in_not() {
    let inner = ManuallyDrop::new([w_belief()]);
    kql([not_block(&inner)], None, true);
    kani::cover!(true, "COVER:reach");
}

#[kani::proof]
#[kani::unwind(4)]
fn c19_gate_kql_belief_in_optional() {
    let inner = ManuallyDrop::new([w_concept(), w_belief_slot()]);
    kql([optional_block(&inner)], None, true);
    kani::cover!(true, "COVER:reach");
}

#[kani::proof]
#[kani::unwind(4)]
fn c19_gate_kql_belief_in_union() {
    let inner = ManuallyDrop::new([w_belief()]);
    kql([union_block(&inner)], None, true);
    kani::cover!(true, "COVER:reach");
}

// depth 2
#[kani::proof]
#[kani::unwind(4)]
fn c19_gate_kql_belief_depth2() {
    let innermost = ManuallyDrop::new([w_belief()]);
    let inner = ManuallyDrop::new([optional_block(&innermost)]);
    kql([union_block(&inner)], None, true);
    kani::cover!(true, "COVER:reach");
}

#[kani::proof]
#[kani::unwind(4)]
fn c19_gate_kql_nested_no_belief() {
    let innermost = ManuallyDrop::new([w_concept()]);
    let inner = ManuallyDrop::new([union_block(&innermost)]);
    kql([not_block(&inner)], None, false);
    kani::cover!(true, "COVER:reach");
}

// ---------------------------------------------------------------------------
// META
// ---------------------------------------------------------------------------

fn meta(cmd: MetaCommand, required: &[Permission]) {
    let cmd = ManuallyDrop::new(cmd);
    let got = ManuallyDrop::new(meta_permissions(&cmd));
    assert!(required.len() != 0 && subset(required, &got), "OBL:C19.gate.meta_table");
}

#[kani::proof]
#[kani::unwind(4)]
fn c19_gate_meta_export() {
    let cmd = ManuallyDrop::new(MetaCommand::ExportCapsule(ExportCapsuleCommand {
        target: er(),
        where_clauses: Vec::new(),
        options: None,
        as_of: None,
    }));
    let got = ManuallyDrop::new(meta_permissions(&cmd));
    // Read != Export: packaging cognition and taking it away asks for `export`;
    // holding `read` alone must not be enough.
    assert!(has(&got, P::Export), "OBL:C19.gate.export_needs_export");
    kani::cover!(true, "COVER:reach");
}

macro_rules! meta_case {
    ($name:ident, $cmd:expr, $required:expr) => {
        #[kani::proof]
        #[kani::unwind(4)]
        fn $name() {
            meta($cmd, &$required);
            kani::cover!(true, "COVER:reach");
        }
    };
}

meta_case!(
    c19_gate_meta_list,
    MetaCommand::List(ListCommand { target: ListTarget::Types, status: None, limit: None, cursor: None }),
    [P::Discover]
);
meta_case!(
    c19_gate_meta_search,
    MetaCommand::Search(SearchCommand {
        target: SearchTarget::Concept,
        term: sc(),
        with_type: None,
        with_predicate: None,
        mode: None,
        threshold: None,
        as_of_seq: None,
        limit: None,
        cursor: None,
    }),
    [P::Search]
);
meta_case!(
    c19_gate_meta_validate,
    MetaCommand::Validate(ValidateCommand { target: ValidateTarget::Kml, value: sc(), options: None }),
    [P::Discover]
);
// a preview computes an effect over real state: it discloses what a read would
meta_case!(c19_gate_meta_preview, MetaCommand::Preview(PreviewCommand::Kml(sc())), [P::Read]);
meta_case!(
    c19_gate_meta_history_space,
    MetaCommand::History(HistoryCommand::Space { from_seq: None, to_seq: None, limit: None, cursor: None }),
    [P::Read, P::ReadHistory]
);
meta_case!(
    c19_gate_meta_history_element,
    MetaCommand::History(HistoryCommand::Element { value: sc(), from_seq: None, to_seq: None, limit: None, cursor: None }),
    [P::Read, P::ReadHistory]
);
meta_case!(
    c19_gate_meta_changes_since,
    MetaCommand::Changes(ChangesCommand::Since { cursor: sc(), limit: None }),
    [P::Read, P::ReadHistory]
);
meta_case!(
    c19_gate_meta_changes_after_seq,
    MetaCommand::Changes(ChangesCommand::AfterSeq { seq: sc(), limit: None }),
    [P::Read, P::ReadHistory]
);
meta_case!(c19_gate_meta_snapshot, MetaCommand::Snapshot { as_of: None }, [P::ReadHistory]);
meta_case!(c19_gate_meta_snapshot_as_of, MetaCommand::Snapshot { as_of: Some(AsOf::Seq(sc())) }, [P::ReadHistory]);

// DESCRIBE: about the Space => never ungated
use DescribeTarget as D;
meta_case!(c19_gate_describe_primer, MetaCommand::Describe(D::Primer { mode: None }), [P::Discover]);
meta_case!(c19_gate_describe_space, MetaCommand::Describe(D::Space { value: None }), [P::Discover]);
meta_case!(c19_gate_describe_schema_env, MetaCommand::Describe(D::SchemaEnvironment { as_of: None }), [P::Discover]);
meta_case!(
    c19_gate_describe_schema_env_as_of,
    MetaCommand::Describe(D::SchemaEnvironment { as_of: Some(AsOf::Seq(sc())) }),
    [P::Discover, P::ReadHistory]
);
meta_case!(c19_gate_describe_package, MetaCommand::Describe(D::Package(sc())), [P::Discover]);
meta_case!(c19_gate_describe_type, MetaCommand::Describe(D::Type(sc())), [P::Discover]);
meta_case!(c19_gate_describe_predicate, MetaCommand::Describe(D::Predicate(sc())), [P::Discover]);
meta_case!(c19_gate_describe_facet, MetaCommand::Describe(D::Facet(sc())), [P::Discover]);
meta_case!(c19_gate_describe_structural_field, MetaCommand::Describe(D::StructuralField(sc())), [P::Discover]);
meta_case!(c19_gate_describe_capsule, MetaCommand::Describe(D::Capsule(sc())), [P::Discover]);
// past state
meta_case!(c19_gate_describe_transaction, MetaCommand::Describe(D::Transaction(sc())), [P::ReadHistory]);
meta_case!(
    c19_gate_describe_transaction_by_key,
    MetaCommand::Describe(D::TransactionByIdempotencyKey(sc())),
    [P::ReadHistory]
);
meta_case!(c19_gate_describe_snapshot, MetaCommand::Describe(D::Snapshot { as_of: None }), [P::ReadHistory]);
// trust state is content of the Space
meta_case!(c19_gate_describe_trust, MetaCommand::Describe(D::Trust { value: None }), [P::Read]);
