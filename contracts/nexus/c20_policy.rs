//! C20.policy — contracts of `Policy::admits`, `Policy::mode_exclusion`,
//! `threshold` and the threshold part of `Policy::from_settings`
//! (rs/anda_cognitive_nexus/src/projection/policy.rs). Child module of
//! `projection::policy` (cfg(kani), scratch copy only).
use super::*;
use core::mem::ManuallyDrop;

const ALL_MODES: [AssertionMode; 6] = [
    AssertionMode::Observed,
    AssertionMode::Stated,
    AssertionMode::Inferred,
    AssertionMode::Predicted,
    AssertionMode::Hypothetical,
    AssertionMode::Imported,
];

fn any_mode() -> AssertionMode {
    let i: usize = kani::any();
    kani::assume(i < 6);
    ALL_MODES[i]
}

fn policy_with(modes: Vec<AssertionMode>) -> ManuallyDrop<Policy> {
    ManuallyDrop::new(Policy {
        id: String::new(),
        version: 0,
        modes,
        accept: 0.7,
        material: 0.3,
        unstated_confidence: 0.5,
        expand_conflicts: true,
    })
}

fn spec_member(m: AssertionMode, modes: &[AssertionMode]) -> bool {
    let mut i = 0;
    while i < modes.len() {
        if modes[i] == m {
            return true;
        }
        i += 1;
    }
    false
}

/// `admits`: an Assertion with no recorded mode is never admitted; a recorded mode
/// is admitted iff the policy lists it. Mode lists of length 0..=3, every element
/// and the queried mode symbolic over all six modes. (Complete for lists <= 3;
/// the shipped policies list 4 and 2 modes: covered by the two concrete blocks.)
#[kani::proof]
#[kani::unwind(6)]
fn c20_policy_admits() {
    let q = any_mode();
    let (a, b, c) = (any_mode(), any_mode(), any_mode());
    let lists: [&[AssertionMode]; 4] = [&[], &[a], &[a, b], &[a, b, c]];
    let mut k = 0;
    while k < 4 {
        let p = policy_with(lists[k].to_vec());
        assert!(!p.admits(None), "OBL:C20.policy.no_mode_never_admitted");
        assert!(p.admits(Some(q)) == spec_member(q, lists[k]), "OBL:C20.policy.admits_iff_listed");
        k += 1;
    }
    // the two shipped mode lists, built by the real constructors' literal lists
    let base = policy_with(vec![
        AssertionMode::Observed,
        AssertionMode::Stated,
        AssertionMode::Inferred,
        AssertionMode::Imported,
    ]);
    assert!(
        base.admits(Some(q)) == !(q == AssertionMode::Predicted || q == AssertionMode::Hypothetical),
        "OBL:C20.policy.admits_iff_listed"
    );
    assert!(!base.admits(None), "OBL:C20.policy.no_mode_never_admitted");
    kani::cover!(base.admits(Some(q)), "COVER:admitted");
    kani::cover!(!base.admits(Some(q)), "COVER:excluded");
    kani::cover!(true, "COVER:reach");
}

pub(super) fn stub_format(_args: core::fmt::Arguments<'_>) -> String {
    String::new()
}

/// Statement slice of `threshold` (the `Some(Json::Number(n))` arm), verbatim.
/// Free variables: `n`, `key`.
fn slice_threshold_number(n: &anda_kip::Number, key: &str) -> Result<Option<f64>, KipError> {
/*@EXTRACT:threshold_number@*/
}

/// Statement slice of `Policy::from_settings`: the coherence check between the two
/// thresholds, verbatim. Free variable: `policy`.
fn slice_coherence(policy: &Policy) -> Result<(), KipError> {
/*@EXTRACT:coherence@*/
    Ok(())
}

/// `threshold` accepts a JSON number only if it is a score boundary in [0,1]
/// (NaN cannot be carried by serde_json and is rejected by the range test anyway),
/// for every finite f64, u64 and i64 number.
#[kani::proof]
#[kani::unwind(2)]
#[kani::stub(alloc::fmt::format, stub_format)]
fn c20_policy_threshold_range() {
    let x: f64 = kani::any();
    let nf = anda_kip::Number::from_f64(x);
    if let Some(n) = nf {
        let r = ManuallyDrop::new(slice_threshold_number(&n, "accept"));
        if let Ok(v) = &*r {
            assert!(v.is_some(), "OBL:C20.policy.threshold_range");
            let v = v.unwrap();
            assert!(0.0 <= v && v <= 1.0 && v == x, "OBL:C20.policy.threshold_range");
            kani::cover!(v > 0.0 && v < 1.0, "COVER:interior");
        } else {
            assert!(!(0.0 <= x && x <= 1.0), "OBL:C20.policy.threshold_accepts_unit_interval");
            kani::cover!(true, "COVER:rejected");
        }
    }
    let u: u64 = kani::any();
    let r = ManuallyDrop::new(slice_threshold_number(&anda_kip::Number::from(u), "accept"));
    assert!(r.is_ok() == (u <= 1), "OBL:C20.policy.threshold_range");
    let i: i64 = kani::any();
    let r = ManuallyDrop::new(slice_threshold_number(&anda_kip::Number::from(i), "accept"));
    assert!(r.is_ok() == (i == 0 || i == 1), "OBL:C20.policy.threshold_range");
    kani::cover!(true, "COVER:reach");
}

/// The policy invariant assumed by `classify`'s contract: whatever combination of
/// default (0.7 / 0.3) and overridden thresholds (each in [0,1] by
/// threshold_range) reaches the coherence check, a policy that passes it has
/// 0 <= material <= accept <= 1.
#[kani::proof]
#[kani::unwind(2)]
#[kani::stub(alloc::fmt::format, stub_format)]
fn c20_policy_threshold_invariant() {
    let base = Policy::baseline();
    let mut p = policy_with(Vec::new());
    p.accept = base.accept;
    p.material = base.material;
    core::mem::forget(base);
    if kani::any() {
        let a: f64 = kani::any();
        kani::assume(0.0 <= a && a <= 1.0);
        p.accept = a;
    }
    if kani::any() {
        let m: f64 = kani::any();
        kani::assume(0.0 <= m && m <= 1.0);
        p.material = m;
    }
    let r = ManuallyDrop::new(slice_coherence(&p));
    if r.is_ok() {
        assert!(
            0.0 <= p.material && p.material <= p.accept && p.accept <= 1.0,
            "OBL:C20.policy.threshold_invariant"
        );
        kani::cover!(p.accept < 0.5, "COVER:custom_ok");
    } else {
        assert!(p.material > p.accept, "OBL:C20.policy.coherence_rejects_only_incoherent");
        kani::cover!(true, "COVER:rejected");
    }
    kani::cover!(true, "COVER:reach");
}
