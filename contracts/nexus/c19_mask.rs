//! C19.mask — contract of `redact::apply` (rs/anda_cognitive_nexus/src/governance/redact.rs).
//!
//! Child module of `governance::redact` (cfg(kani), scratch copy only). From the
//! property ("masked fields cannot be inferred ...": the mask is applied to the view
//! before anything reads a field from it) and the module documentation: after
//! `apply` with a non-empty field mask every member that is neither listed nor one
//! of the identity members {id, kind, space_id} is ABSENT from the view; the identity
//! members survive every mask; `_system.origin` is replaced unless the caller holds
//! `read_raw_origin`.
use super::*;
use core::mem::ManuallyDrop;

fn sym_str1() -> String {
    let mut v: Vec<u8> = Vec::with_capacity(1);
    let b: u8 = kani::any();
    kani::assume(b == b'a' || b == b'b' || b == b'z');
    v.push(b);
    unsafe { String::from_utf8_unchecked(v) }
}

/// A 3-member view {id, a, b}; the mask lists one symbolic 1-byte name.
#[kani::proof]
#[kani::unwind(6)]
fn c19_mask_three_keys() {
    let mut object = serde_json::Map::new();
    object.insert("id".to_string(), Json::Null);
    object.insert("a".to_string(), Json::Bool(true));
    object.insert("b".to_string(), Json::Bool(false));
    let mut view = ManuallyDrop::new(Json::Object(object));
    let constraints = ManuallyDrop::new(AuthorityConstraints {
        fields: vec![sym_str1()],
        max_results: None,
        max_influence_authority: String::new(),
        max_classification: String::new(),
        export: false,
    });
    apply(&mut view, &constraints, true);
    let listed_a = constraints.fields[0].as_bytes()[0] == b'a';
    let listed_b = constraints.fields[0].as_bytes()[0] == b'b';
    assert!(view.get("id").is_some(), "OBL:C19.mask.identity_survives");
    assert!(view.get("a").is_some() == listed_a, "OBL:C19.mask.unlisted_member_absent");
    assert!(view.get("b").is_some() == listed_b, "OBL:C19.mask.unlisted_member_absent");
    kani::cover!(listed_a, "COVER:keeps_a");
    kani::cover!(!listed_a && !listed_b, "COVER:drops_both");
    kani::cover!(true, "COVER:reach");
}
