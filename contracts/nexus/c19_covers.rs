//! C19.covers — contract of `covers` (rs/anda_cognitive_nexus/src/governance/decision.rs).
//!
//! Child module of `governance::decision` (cfg(kani), scratch copy only), so the
//! private `covers` is visible unchanged (harness form). The postconditions are the sentences of
//! the documentation of `AuthorityScope` ("every list is: empty means every value")
//! and of `covers` ("an empty *value* against a bounded list does not match"), not
//! the body of the function.
#[path = "c19_common.rs"]
mod common;
use super::*;
use common::{spec_covers, sym_str};
use core::mem::ManuallyDrop;

pub(super) fn post_iff(bound: &[String], value: &str, r: &bool) -> bool {
    *r == spec_covers(bound, value)
}

/// "empty means every value"
pub(super) fn post_empty_list_unrestricted(bound: &[String], r: &bool) -> bool {
    bound.len() != 0 || *r
}

/// "an empty value against a bounded list does not match" (even when the list
/// happens to contain the empty string).
pub(super) fn post_empty_value_never_bounded(bound: &[String], value: &str, r: &bool) -> bool {
    !(bound.len() != 0 && value.len() == 0) || !*r
}

fn block(bound: Vec<String>, value: String) {
    let bound = ManuallyDrop::new(bound);
    let value = ManuallyDrop::new(value);
    let r = covers(&bound, &value);
    // the two documented special cases first (a refutation is then reported under the
    // documentation's own words), the full characterisation last
    assert!(post_empty_list_unrestricted(&bound, &r), "OBL:C19.covers.empty_list_unrestricted");
    assert!(post_empty_value_never_bounded(&bound, &value, &r), "OBL:C19.covers.empty_value_never_bounded");
    assert!(post_iff(&bound, &value, &r), "OBL:C19.covers.iff");
    kani::cover!(r, "COVER:covered");
    kani::cover!(!r, "COVER:not_covered");
}

// List length and every string length are concrete (rule 1), the bytes symbolic. One
// harness per shape of the bound list; inside it one block per value length 0, 1, 2.
// Together the 13 harnesses enumerate EVERY shape with list <= 2 and strings <= 2 bytes.
//
// Form: plain harness. Measured in this sandbox: the same blocks as
// `#[kani::proof_for_contract(covers)]` with the postconditions attached as
// `kani::ensures` took 178-335 s EACH (contract frame instrumentation over the heap
// strings) against 1-3 s each in harness form, so the attribute form (and with it
// `stub_verified(covers)` in the callers) was dropped.
macro_rules! covers_harness {
    ($name:ident, [$($bl:expr),*]) => {
        #[kani::proof]
        #[kani::unwind(4)]
        fn $name() {
            block(vec![$(sym_str($bl)),*], sym_str(0));
            block(vec![$(sym_str($bl)),*], sym_str(1));
            block(vec![$(sym_str($bl)),*], sym_str(2));
            kani::cover!(true, "COVER:reach");
        }
    };
}

// unrestricted list
covers_harness!(c19_covers_unrestricted, []);
// one listed value of 0 / 1 / 2 bytes
covers_harness!(c19_covers_one_0, [0]);
covers_harness!(c19_covers_one_1, [1]);
covers_harness!(c19_covers_one_2, [2]);
// two listed values
covers_harness!(c19_covers_two_00, [0, 0]);
covers_harness!(c19_covers_two_01, [0, 1]);
covers_harness!(c19_covers_two_02, [0, 2]);
covers_harness!(c19_covers_two_10, [1, 0]);
covers_harness!(c19_covers_two_11, [1, 1]);
covers_harness!(c19_covers_two_12, [1, 2]);
covers_harness!(c19_covers_two_20, [2, 0]);
covers_harness!(c19_covers_two_21, [2, 1]);
covers_harness!(c19_covers_two_22, [2, 2]);
