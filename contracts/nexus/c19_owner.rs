//! C19.owner — "a revocation, suspension or expiry takes effect on the very next
//! request; a delegation never confers more than its delegator currently holds":
//! the ownership decision of `EffectiveAuthority::resolve_at_depth`
//! (rs/anda_cognitive_nexus/src/governance/decision.rs). `authorize` refuses an
//! inactive principal's own requests, but `resolve_delegation` reads the
//! delegator's `is_owner` directly — so a suspended / revoked Principal must not
//! resolve as an owner at all. Added after seed C19c (the `live &&` conjunct
//! dropped as "redundant") slipped through.
//!
//! The `let is_owner = ..;` statement is copied VERBATIM (every run) into a free
//! function. Stand-in: the Space record (owner id + a two-element owners list;
//! ids are one-byte strings).
use core::mem::ManuallyDrop;

struct VerifSpace {
    owner_principal: String,
    owners: Vec<String>,
}

fn verif_is_owner(live: bool, space: &VerifSpace, principal_id: &str) -> bool {
/*@EXTRACT:is_owner@*/
    is_owner
}

fn id(b: u8) -> String {
    let mut s = String::with_capacity(1);
    s.push(if b % 2 == 0 { 'a' } else { 'b' });
    s
}

#[kani::proof]
#[kani::unwind(4)]
fn c19_owner_decision() {
    let live: bool = kani::any();
    let (o, c1, c2, p): (u8, u8, u8, u8) = (kani::any(), kani::any(), kani::any(), kani::any());
    let mut owners = Vec::with_capacity(2);
    owners.push(id(c1));
    owners.push(id(c2));
    let space = ManuallyDrop::new(VerifSpace { owner_principal: id(o), owners });
    let pid = ManuallyDrop::new(id(p));
    let got = verif_is_owner(live, &space, &pid);
    let named = o % 2 == p % 2 || c1 % 2 == p % 2 || c2 % 2 == p % 2;
    // a suspended / revoked Principal holds nothing — ownership included
    assert!(live || !got, "OBL:C19.owner.inactive_principal_is_not_an_owner");
    // an owner is one the Space record names
    assert!(!got || named, "OBL:C19.owner.owner_is_named_by_the_space");
    kani::cover!(!live && named, "COVER:suspended_owner");
    kani::cover!(got, "COVER:owner");
    kani::cover!(true, "COVER:reach");
}
