//! C19.histpage — paging kernels of the async `HISTORY` and `CHANGES` readers
//! (rs/anda_cognitive_nexus/src/meta/history.rs): "every ... page, history read
//! ... behaves exactly as if the elements that principal may not read did not
//! exist".
//!
//! The statements of `history` / `changes` between `rows.sort_by_key(..)` and
//! `Ok(Answer {` are copied VERBATIM (every run) into `async fn`s; `.await`s stay
//! as they are and are driven by a poll loop of our own. The contract is
//! relational (non-interference): the kernel run on a journal with hidden
//! transactions interleaved and the kernel run on the same journal from which the
//! hidden transactions are absent must produce the same page, the same decision
//! whether a cursor is issued, and the same cursor.
//!
//! Stand-ins with ASSUMED contracts: `visible_changes` (removes exactly the
//! transactions the caller may not see, keeps order — its per-change filtering and
//! the authorization decision behind it are C19.gate/C19.authz territory),
//! `entry` (identifies a row by its sequence), `TransactionRow`, `Json`, `Context`.
//! Dropped: everything before the slice (argument parsing, the journal query, the
//! range filter and the sort) and the `Answer` construction after it; the cursor
//! rule `consumed < total` / `more` is restated in the harness from the line that
//! follows the slice.
use core::future::Future;
use core::mem::ManuallyDrop;
use core::pin::Pin;
use core::task::{Context, Poll, Waker};

struct YieldOnce(bool);
impl Future for YieldOnce {
    type Output = ();
    fn poll(mut self: Pin<&mut Self>, _cx: &mut Context<'_>) -> Poll<()> {
        if self.0 {
            Poll::Ready(())
        } else {
            self.0 = true;
            Poll::Pending
        }
    }
}

fn block_on<T>(fut: impl Future<Output = T>) -> T {
    let mut fut = core::pin::pin!(fut);
    let mut cx = Context::from_waker(Waker::noop());
    loop {
        if let Poll::Ready(v) = fut.as_mut().poll(&mut cx) {
            return v;
        }
    }
}

type Json = u64;
#[derive(Clone, Copy)]
struct TransactionRow {
    seq: u64,
    visible: bool,
}
struct VerifCx;

/// ASSUMED contract of `visible_changes`.
async fn visible_changes(_cx: &mut VerifCx, rows: &mut Vec<TransactionRow>) {
    YieldOnce(false).await;
    rows.retain(|row| row.visible);
}

fn entry(row: &TransactionRow, _element: Option<&str>) -> Json {
    row.seq
}

#[allow(unused_mut, unused_variables)]
async fn verif_history_page(
    cx: &mut VerifCx,
    mut rows: Vec<TransactionRow>,
    offset: usize,
    limit: usize,
    element: Option<String>,
) -> (Vec<Json>, usize, usize) {
/*@EXTRACT:history_page@*/
    (page, consumed, total)
}

#[allow(unused_mut, unused_variables)]
async fn verif_changes_page(
    cx: &mut VerifCx,
    mut rows: Vec<TransactionRow>,
    limit: usize,
) -> (Vec<Json>, bool, Option<u64>) {
/*@EXTRACT:changes_page@*/
    (page, more, last)
}

const N: usize = 3;

/// The journal as the store returns it (N transactions; `mask[k]` says whether
/// this caller may see transaction k) and the journal of a Space in which the
/// hidden ones never happened.
fn journals(mask: [bool; N]) -> (Vec<TransactionRow>, Vec<TransactionRow>) {
    let mut with_hidden = Vec::with_capacity(N);
    let mut without = Vec::with_capacity(N);
    let mut k = 0;
    while k < N {
        // (distinct concrete sequences: they identify the rows in the compared pages;
        // symbolic ones cost 170 s per harness and may coincide, hiding a difference)
        let row = TransactionRow {
            seq: 10 + k as u64,
            visible: mask[k],
        };
        with_hidden.push(row);
        if row.visible {
            without.push(row);
        }
        k += 1;
    }
    (with_hidden, without)
}

fn same(a: &Vec<Json>, b: &Vec<Json>) -> bool {
    if a.len() != b.len() {
        return false;
    }
    let mut k = 0;
    while k < a.len() {
        if a[k] != b[k] {
            return false;
        }
        k += 1;
    }
    true
}

/// 0..=N+1 or usize::MAX (the unstated LIMIT): with N rows every larger value
/// behaves like N+1. (Full-width symbolic offset / limit: 140-170 s per harness in
/// the skip/take adaptors.)
fn small() -> usize {
    let v: u8 = kani::any();
    kani::assume(v as usize <= N + 2);
    if v as usize == N + 2 { usize::MAX } else { v as usize }
}

fn history_case(mask: [bool; N]) {
    let (a, b) = journals(mask);
    let offset = small();
    let limit = small();
    let (pa, ca, ta) = block_on(verif_history_page(&mut VerifCx, a, offset, limit, None));
    let (pb, cb, tb) = block_on(verif_history_page(&mut VerifCx, b, offset, limit, None));
    let (pa, pb) = (ManuallyDrop::new(pa), ManuallyDrop::new(pb));
    assert!(same(&pa, &pb), "OBL:C19.histpage.history_page_ignores_hidden_transactions");
    // `next_cursor: (consumed < total).then(|| consumed.to_string())`
    assert!((ca < ta) == (cb < tb), "OBL:C19.histpage.history_cursor_ignores_hidden_transactions");
    assert!(!(ca < ta) || ca == cb, "OBL:C19.histpage.history_cursor_ignores_hidden_transactions");
    kani::cover!(ca < ta, "COVER:more");
    kani::cover!(pa.len() > 0 && offset > 0, "COVER:second_page");
    kani::cover!(true, "COVER:reach");
}

fn changes_case(mask: [bool; N]) {
    let (a, b) = journals(mask);
    let limit = small();
    let (pa, ma, la) = block_on(verif_changes_page(&mut VerifCx, a, limit));
    let (pb, mb, lb) = block_on(verif_changes_page(&mut VerifCx, b, limit));
    let (pa, pb) = (ManuallyDrop::new(pa), ManuallyDrop::new(pb));
    assert!(same(&pa, &pb), "OBL:C19.histpage.changes_page_ignores_hidden_transactions");
    // `next_cursor: more.then(|| last.unwrap_or(after).to_string())`
    assert!(ma == mb, "OBL:C19.histpage.changes_cursor_ignores_hidden_transactions");
    assert!(!ma || la == lb, "OBL:C19.histpage.changes_cursor_ignores_hidden_transactions");
    kani::cover!(ma, "COVER:more");
    kani::cover!(true, "COVER:reach");
}

macro_rules! cases {
    ($($h:ident $c:ident [$a:expr, $b:expr, $d:expr];)*) => {$(
        #[kani::proof]
        #[kani::unwind(6)]
        fn $h() {
            history_case([$a, $b, $d]);
        }
        #[kani::proof]
        #[kani::unwind(6)]
        fn $c() {
            changes_case([$a, $b, $d]);
        }
    )*};
}
cases! {
    c19_histpage_history_vhv c19_histpage_changes_vhv [true, false, true];
    c19_histpage_history_hvv c19_histpage_changes_hvv [false, true, true];
    c19_histpage_history_vvh c19_histpage_changes_vvh [true, true, false];
    c19_histpage_history_hhv c19_histpage_changes_hhv [false, false, true];
    c19_histpage_history_vhh c19_histpage_changes_vhh [true, false, false];
    c19_histpage_history_hvh c19_histpage_changes_hvh [false, true, false];
    c19_histpage_history_hhh c19_histpage_changes_hhh [false, false, false];
    c19_histpage_history_vvv c19_histpage_changes_vvv [true, true, true];
}
