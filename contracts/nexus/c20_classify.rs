//! C20.classify — contract of `classify` (rs/anda_cognitive_nexus/src/projection/mod.rs).
//!
//! Child module of `projection` (injected under cfg(kani) into the scratch copy),
//! so the private `classify`, `Ledger` and `Policy` are visible unchanged.
//! The postconditions are written from the property statement (C20) and from the
//! documented meaning of `BeliefStatus`, not from the body of `classify`.
use super::*;

/// Invariant of a policy that `Policy::from_settings` / `baseline` / `forecast`
/// can produce: 0 <= material <= accept <= 1 (C20.policy establishes it).
pub(super) fn policy_ok(p: &Policy) -> bool {
    0.0 <= p.material && p.material <= p.accept && p.accept <= 1.0
}

/// Scores produced by `aggregate` lie in [0,1] (C20.fold establishes it).
pub(super) fn score_ok(x: f64) -> bool {
    0.0 <= x && x <= 1.0
}

/// "No eligible assertion about it (or about a rival value)": the ledger counts
/// no supporting group, no opposing group and lists nothing as uncertain.
pub(super) fn silent(l: &Ledger) -> bool {
    l.support_groups == 0 && l.opposition_groups == 0 && l.uncertain.is_empty()
}

/// C20: with no eligible assertion it is 'insufficient' — for ANY scores and thresholds.
pub(super) fn post_silence(l: &Ledger, r: &BeliefStatus) -> bool {
    !silent(l) || *r == BeliefStatus::Insufficient
}

/// C20: "never 'rejected'" under silence (separately named so that a change
/// returning Rejected on silence is reported under the property's own words).
pub(super) fn post_silence_never_rejected(l: &Ledger, r: &BeliefStatus) -> bool {
    !silent(l) || *r != BeliefStatus::Rejected
}

/// C20: rejection requires positive opposition (under the policy invariant and
/// scores in [0,1]).
pub(super) fn post_rejected_needs_opposition(
    support: f64,
    opposition: f64,
    p: &Policy,
    r: &BeliefStatus,
) -> bool {
    if !(policy_ok(p) && score_ok(support) && score_ok(opposition)) {
        return true;
    }
    *r != BeliefStatus::Rejected || opposition > 0.0
}

/// Documented meaning of the statuses (anda_kip::BeliefStatus): each decisive
/// status implies its threshold relation. Holds for every f64 incl. NaN.
pub(super) fn post_thresholds(support: f64, opposition: f64, p: &Policy, r: &BeliefStatus) -> bool {
    match *r {
        BeliefStatus::Accepted => support >= p.accept && opposition < p.material,
        BeliefStatus::Rejected => opposition >= p.accept && support < p.material,
        BeliefStatus::Contested => support >= p.material && opposition >= p.material,
        _ => true,
    }
}

fn any_ledger(with_uncertain: bool) -> core::mem::ManuallyDrop<Ledger> {
    let mut ledger = Ledger::default();
    ledger.support_groups = kani::any();
    ledger.opposition_groups = kani::any();
    if with_uncertain {
        ledger.uncertain.push(String::new());
    }
    core::mem::ManuallyDrop::new(ledger)
}

fn any_policy() -> core::mem::ManuallyDrop<Policy> {
    core::mem::ManuallyDrop::new(Policy {
        id: String::new(),
        version: kani::any(),
        modes: Vec::new(),
        accept: kani::any(),
        material: kani::any(),
        unstated_confidence: kani::any(),
        expand_conflicts: kani::any(),
    })
}

fn body(with_uncertain: bool) {
    let support: f64 = kani::any();
    let opposition: f64 = kani::any();
    let ledger = any_ledger(with_uncertain);
    let policy = any_policy();
    let r = classify(support, opposition, &ledger, &policy);
    // Explicit restatement: decisive under native playback, redundant under CBMC.
    assert!(post_silence(&ledger, &r), "OBL:C20.classify.silence");
    assert!(post_silence_never_rejected(&ledger, &r), "OBL:C20.classify.silence_never_rejected");
    assert!(
        post_rejected_needs_opposition(support, opposition, &policy, &r),
        "OBL:C20.classify.rejected_needs_opposition"
    );
    assert!(post_thresholds(support, opposition, &policy, &r), "OBL:C20.classify.thresholds");
    kani::cover!(r == BeliefStatus::Insufficient, "COVER:insufficient");
    kani::cover!(r == BeliefStatus::Rejected && policy_ok(&policy), "COVER:rejected");
    kani::cover!(r == BeliefStatus::Accepted, "COVER:accepted");
    kani::cover!(r == BeliefStatus::Contested, "COVER:contested");
    kani::cover!(r == BeliefStatus::Uncertain, "COVER:uncertain");
    kani::cover!(true, "COVER:reach");
}

/// Discharges the four `kani::ensures` clauses attached to `classify` for every
/// f64 bit pattern (NaN, +-0, subnormals, infinities), every usize group count,
/// `uncertain` empty. Loop-free: a complete proof.
#[kani::proof_for_contract(classify)]
#[kani::unwind(2)]
fn c20_classify_contract_empty_uncertain() {
    body(false);
}

/// Same with a non-empty `uncertain` list (the function only asks `is_empty`).
#[kani::proof_for_contract(classify)]
#[kani::unwind(2)]
fn c20_classify_contract_some_uncertain() {
    body(true);
}
