//! C19.authz — precedence of `EffectiveAuthority::authorize` and the matching of
//! its two kinds of authority, `candidate_matches` (Grants / Delegations) and
//! `EffectiveAuthority::statement_matches` (Policy statements)
//! (rs/anda_cognitive_nexus/src/governance/decision.rs).
//!
//! Child module of `governance::decision` (cfg(kani), scratch copy only): the
//! private `Candidate`, the private fields of `EffectiveAuthority` and the private
//! matching functions are visible unchanged. Harness form.
//!
//! The obligations are the property's sentences: "Access is denied unless an active
//! owner, grant, delegation or policy statement allows it; an explicit deny, a
//! revocation, suspension or expiry takes effect on the very next request", and
//! §40 of the decision's documentation: an unmet approval blocks, it is not a soft
//! allow. "Matching" in the precedence obligations is decided by the REAL
//! `candidate_matches` / `statement_matches`, which the second half of this unit
//! puts under contract themselves.
//!
//! Stubs: `crate::time::now` (the clock: returns the instant the harness chose, a
//! 1-byte string — byte order is chronological order for normalized timestamps) and
//! `alloc::fmt::format` (reason / id texts are not part of the property).
#[path = "c19_common.rs"]
mod common;
use super::*;
use common::{auth_ctx, conditions, is, listed, sym_list, sym_str};
use core::mem::ManuallyDrop;

pub(super) fn stub_format(_args: core::fmt::Arguments<'_>) -> String {
    String::new()
}

static mut NOW: u8 = b'm';

/// The clock stub: the instant chosen by the harness.
pub(super) fn stub_now() -> String {
    let mut v: Vec<u8> = Vec::with_capacity(1);
    v.push(unsafe { NOW });
    unsafe { String::from_utf8_unchecked(v) }
}

fn choose_now() -> ManuallyDrop<String> {
    let b: u8 = kani::any();
    kani::assume(b < 0x80);
    unsafe { NOW = b };
    ManuallyDrop::new(stub_now())
}

fn candidate(actions: Vec<String>, scope: AuthorityScope, conditions: AuthorityConditions, constraints: AuthorityConstraints) -> Candidate {
    Candidate { id: String::new(), actions, scope, conditions, constraints, delegation_allowed: false }
}

fn no_scope() -> AuthorityScope {
    AuthorityScope { kinds: Vec::new(), schema_refs: Vec::new(), classifications: Vec::new(), elements: Vec::new() }
}

fn no_conditions() -> AuthorityConditions {
    ManuallyDrop::into_inner(conditions(Vec::new(), "", "", String::new(), String::new()))
}

fn no_constraints() -> AuthorityConstraints {
    AuthorityConstraints {
        fields: Vec::new(),
        max_results: None,
        max_influence_authority: String::new(),
        max_classification: String::new(),
        export: false,
    }
}

fn statement(effect: &str, principals: Vec<String>, groups: Vec<String>, actions: Vec<String>, resource: AuthorityScope, conditions: AuthorityConditions, approvals: u64) -> PolicyStatement {
    PolicyStatement {
        effect: effect.to_string(),
        principals,
        groups,
        actions,
        resource,
        conditions,
        constraints: no_constraints(),
        obligations: PolicyObligations { audit: false, approvals_required: approvals, redaction_profile: String::new() },
    }
}

fn authority(
    principal_id: String,
    principal_status: &str,
    space_status: &str,
    is_owner: bool,
    groups: Vec<String>,
    statements: Vec<PolicyStatement>,
    candidates: Vec<Candidate>,
) -> ManuallyDrop<EffectiveAuthority> {
    let mut space = SpaceRow::default();
    space.status = space_status.to_string();
    let mut principal = PrincipalRow::default();
    principal.principal_id = principal_id;
    principal.status = principal_status.to_string();
    ManuallyDrop::new(EffectiveAuthority {
        space,
        principal,
        groups,
        is_owner,
        policy: None,
        bindings: Vec::new(),
        statements,
        candidates,
    })
}

/// The documented resolution order, checked after one `authorize` call:
///
///   protocol invariant (inactive Principal, suspended Space)
///     -> matching explicit deny -> matching allow (owner / candidate / statement)
///     -> default deny;   an allow with outstanding approvals does not run.
///
/// `resource` must be one `authorize` does not rewrite (Space scope, or a named
/// classification), so that the matching oracles see the resource `authorize` sees.
fn check_precedence(ea: &EffectiveAuthority, permission: Permission, resource: &ResourceContext, ctx: &AuthContext, now: &str) -> Decision {
    let out = ManuallyDrop::new(ea.authorize(permission, resource, ctx));
    let d = out.decision;
    let permitted = out.is_permitted();

    let active = is(&ea.principal.status, "active");
    let suspended = is(&ea.space.status, "suspended");
    let mut denied = false;
    let mut allowed_by_statement = false;
    let mut approvals: u64 = 0;
    let mut i = 0;
    while i < ea.statements.len() {
        let st = &ea.statements[i];
        if ea.statement_matches(st, permission, resource, ctx, now) {
            if is(&st.effect, "deny") {
                denied = true;
            } else if is(&st.effect, "allow") {
                allowed_by_statement = true;
                if st.obligations.approvals_required > approvals {
                    approvals = st.obligations.approvals_required;
                }
            }
        }
        i += 1;
    }
    let mut allowed_by_candidate = false;
    let mut j = 0;
    while j < ea.candidates.len() {
        if candidate_matches(&ea.candidates[j], permission, resource, ctx, now) {
            allowed_by_candidate = true;
        }
        j += 1;
    }
    let allowed = ea.is_owner || allowed_by_candidate || allowed_by_statement;

    if !active {
        assert!(d == Decision::Deny, "OBL:C19.authz.inactive_principal_denied");
    }
    if suspended {
        assert!(d == Decision::Deny, "OBL:C19.authz.suspended_space_denied");
    }
    if denied {
        // even for the owner, even next to a matching allow
        assert!(d == Decision::Deny, "OBL:C19.authz.deny_wins");
    }
    if !allowed {
        assert!(d == Decision::Deny, "OBL:C19.authz.default_deny");
    }
    if approvals > 0 {
        assert!(!permitted, "OBL:C19.authz.approval_blocks");
        if active && !suspended && !denied {
            assert!(d == Decision::RequireApproval, "OBL:C19.authz.approval_blocks");
        }
    }
    assert!(
        permitted == (active && !suspended && !denied && allowed && approvals == 0),
        "OBL:C19.authz.permitted_iff"
    );
    kani::cover!(d == Decision::Deny, "COVER:deny");
    kani::cover!(permitted, "COVER:permitted");
    kani::cover!(d == Decision::RequireApproval, "COVER:require_approval");
    d
}

fn space_scope() -> ManuallyDrop<ResourceContext> {
    ManuallyDrop::new(ResourceContext { kind: String::new(), schema_ref: String::new(), classification: String::new(), element_id: String::new() })
}

// Structure concrete, payload symbolic (rule 1): who allows and who denies is
// enumerated as concrete shapes below, and what stays symbolic inside a shape is the
// number of approvals required (u64) and the clock. "read" names the requested
// permission, "purge" does not. (A version with the structure symbolic too did not
// finish: see the note before the expiry harnesses.)

fn grant(action: &str) -> Candidate {
    candidate(vec![action.to_string()], no_scope(), no_conditions(), no_constraints())
}

fn deny_on(action: &str) -> PolicyStatement {
    statement("deny", Vec::new(), Vec::new(), vec![action.to_string()], no_scope(), no_conditions(), 0)
}

fn allow_on(action: &str, approvals: u64) -> PolicyStatement {
    statement("allow", Vec::new(), Vec::new(), vec![action.to_string()], no_scope(), no_conditions(), approvals)
}

macro_rules! precedence_harness {
    ($name:ident, $pstatus:expr, $sstatus:expr, $owner:expr, [$($st:expr),*], [$($cand:expr),*], $expect:expr) => {
        #[kani::proof]
        #[kani::unwind(11)]
        #[kani::stub(crate::time::now, stub_now)]
        #[kani::stub(alloc::fmt::format, stub_format)]
        fn $name() {
            let now = choose_now();
            let approvals: u64 = kani::any();
            let _ = approvals;
            let ea = authority(String::new(), $pstatus, $sstatus, $owner, Vec::new(), vec![$($st(approvals)),*], vec![$($cand),*]);
            let ctx = auth_ctx("", "", String::new());
            let r = space_scope();
            let d = check_precedence(&ea, Permission::Read, &r, &ctx, &now);
            let expect: fn(Decision, u64) -> bool = $expect;
            assert!(expect(d, approvals), "OBL:C19.authz.decision_table");
            kani::cover!(true, "COVER:reach");
        }
    };
}

fn is_deny(d: Decision, _: u64) -> bool {
    d == Decision::Deny
}
fn is_allow(d: Decision, _: u64) -> bool {
    d == Decision::Allow || d == Decision::AllowWithConstraints
}
fn approval_or_allow(d: Decision, approvals: u64) -> bool {
    if approvals > 0 { d == Decision::RequireApproval } else { is_allow(d, 0) }
}

// --- an explicit deny wins
precedence_harness!(c19_authz_deny_beats_owner, "active", "active", true,
    [|_| deny_on("read"), |n| allow_on("read", n)], [grant("read")], is_deny);
precedence_harness!(c19_authz_deny_beats_grant, "active", "active", false,
    [|_| deny_on("read")], [grant("read")], is_deny);
precedence_harness!(c19_authz_deny_listed_after_allow, "active", "active", false,
    [|n| allow_on("read", n), |_| deny_on("read")], [], is_deny);
// a deny that does not match the operation denies nothing
precedence_harness!(c19_authz_unrelated_deny, "active", "active", false,
    [|_| deny_on("purge")], [grant("read")], is_allow);
// --- default deny
precedence_harness!(c19_authz_nothing_configured, "active", "active", false, [], [], is_deny);
precedence_harness!(c19_authz_nothing_matches, "active", "active", false,
    [|n| allow_on("purge", n)], [grant("purge")], is_deny);
// --- each kind of allow on its own
precedence_harness!(c19_authz_owner_alone, "active", "active", true, [], [], is_allow);
precedence_harness!(c19_authz_grant_alone, "active", "active", false, [], [grant("read")], is_allow);
// --- approvals: an allow statement that requires approvals blocks, whoever else allows
precedence_harness!(c19_authz_statement_alone_approvals, "active", "active", false,
    [|n| allow_on("read", n)], [], approval_or_allow);
precedence_harness!(c19_authz_owner_needs_approvals, "active", "active", true,
    [|n| allow_on("read", n)], [], approval_or_allow);
precedence_harness!(c19_authz_grant_needs_approvals, "active", "active", false,
    [|n| allow_on("read", n)], [grant("read")], approval_or_allow);
// --- protocol invariants: a Principal that is not active / a suspended Space, with
//     the owner, an allow statement and a matching Grant all in favour
precedence_harness!(c19_authz_principal_suspended, "suspended", "active", true,
    [|_| allow_on("read", 0)], [grant("read")], is_deny);
precedence_harness!(c19_authz_principal_revoked, "revoked", "active", true,
    [|_| allow_on("read", 0)], [grant("read")], is_deny);
precedence_harness!(c19_authz_principal_no_status, "", "active", true,
    [|_| allow_on("read", 0)], [grant("read")], is_deny);
precedence_harness!(c19_authz_space_suspended, "active", "suspended", true,
    [|_| allow_on("read", 0)], [grant("read")], is_deny);

// Not claimed (measured, each with --max-field-sensitivity-array-size 4096, 900 s, no
// verdict): (a) ONE authority whose ownership and three match outcomes are symbolic
// (4 symbolic action-name bytes each) — the length of `allows` and of every cloned
// list becomes symbolic; (b) a named element with a deny statement scoped by a
// symbolic kind and a Grant scoped by a symbolic element id whose expiry instant and
// the clock are symbolic bytes, for the same reason. Expiry through `authorize`'s own clock read is
// therefore checked on three concrete instants around the expiry; the symbolic
// comparison itself is C19.scope.expiry_instant / C19.authz.candidate_matches_iff.

fn expiring_grant(until: &str) -> Candidate {
    candidate(
        vec!["read".to_string()],
        no_scope(),
        ManuallyDrop::into_inner(conditions(Vec::new(), "", "", String::new(), until.to_string())),
        no_constraints(),
    )
}

macro_rules! expiry_harness {
    ($name:ident, $clock:expr, $until:expr, $expect:expr) => {
        #[kani::proof]
        #[kani::unwind(11)]
        #[kani::stub(crate::time::now, stub_now)]
        #[kani::stub(alloc::fmt::format, stub_format)]
        fn $name() {
            unsafe { NOW = $clock };
            let now = ManuallyDrop::new(stub_now());
            let ea = authority(String::new(), "active", "active", false, Vec::new(), Vec::new(), vec![expiring_grant($until)]);
            let ctx = auth_ctx("", "", String::new());
            let r = space_scope();
            let d = check_precedence(&ea, Permission::Read, &r, &ctx, &now);
            let expect: fn(Decision, u64) -> bool = $expect;
            // the Grant is in force strictly before its valid_until and not at or after it
            assert!(expect(d, 0), "OBL:C19.authz.expired_grant_denied");
            kani::cover!(true, "COVER:reach");
        }
    };
}
expiry_harness!(c19_authz_grant_before_expiry, b'l', "m", is_allow);
expiry_harness!(c19_authz_grant_at_expiry, b'm', "m", is_deny);
expiry_harness!(c19_authz_grant_after_expiry, b'n', "m", is_deny);

// ---------------------------------------------------------------------------
// candidate_matches
// ---------------------------------------------------------------------------

/// A Grant / Delegation applies iff it names the permission, reaches the resource
/// (scope AND classification ceiling; a Space-scope request names no resource) and
/// its conditions hold. A Grant with no actions confers nothing at all.
fn candidate_block(actions: Vec<String>, scope: AuthorityScope, ceiling: &str, valid_until: String, r: ResourceContext, permission: Permission) {
    let mut k = no_constraints();
    k.max_classification = ceiling.to_string();
    let c = ManuallyDrop::new(candidate(actions, scope, ManuallyDrop::into_inner(conditions(Vec::new(), "", "", String::new(), valid_until)), k));
    let r = ManuallyDrop::new(r);
    let ctx = auth_ctx("", "", String::new());
    let now = ManuallyDrop::new(sym_str(1));
    let got = candidate_matches(&c, permission, &r, &ctx, &now);
    let named = listed(&c.actions, permission.as_str());
    let reaches = r.is_space_scope() || (scope_matches(&c.scope, &r) && reaches_classification(&c.constraints, &r));
    let holds = conditions_hold(&c.conditions, &ctx, &now);
    assert!(got == (named && reaches && holds), "OBL:C19.authz.candidate_matches_iff");
    if c.actions.len() == 0 {
        assert!(!got, "OBL:C19.authz.no_actions_confers_nothing");
    }
    kani::cover!(got, "COVER:matches");
    kani::cover!(!got, "COVER:no_match");
}

fn named_resource(kind_len: usize, label: &str) -> ResourceContext {
    ResourceContext { kind: sym_str(kind_len), schema_ref: String::new(), classification: label.to_string(), element_id: String::new() }
}

#[kani::proof]
#[kani::unwind(10)]
fn c19_authz_candidate_actions() {
    // the requested permission against 0, 1, 2 listed action names
    candidate_block(Vec::new(), no_scope(), "", String::new(), ManuallyDrop::into_inner(space_scope()), Permission::Read);
    candidate_block(vec![sym_str(4)], no_scope(), "", String::new(), ManuallyDrop::into_inner(space_scope()), Permission::Read);
    candidate_block(vec![sym_str(4), sym_str(6)], no_scope(), "", String::new(), ManuallyDrop::into_inner(space_scope()), Permission::Export);
    kani::cover!(true, "COVER:reach");
}

#[kani::proof]
#[kani::unwind(10)]
fn c19_authz_candidate_resource() {
    // scope by kind, classification ceiling below / at / above the element's label
    let mut s = no_scope();
    s.kinds = sym_list(&[1]);
    candidate_block(vec!["read".to_string()], s, "internal", String::new(), named_resource(1, "private"), Permission::Read);
    let mut s = no_scope();
    s.kinds = sym_list(&[1]);
    candidate_block(vec!["read".to_string()], s, "private", String::new(), named_resource(1, "private"), Permission::Read);
    candidate_block(vec!["read".to_string()], no_scope(), "secret", String::new(), named_resource(0, "public"), Permission::Read);
    kani::cover!(true, "COVER:reach");
}

#[kani::proof]
#[kani::unwind(10)]
fn c19_authz_candidate_expiry() {
    candidate_block(vec!["read".to_string()], no_scope(), "", sym_str(1), ManuallyDrop::into_inner(space_scope()), Permission::Read);
    candidate_block(vec!["read".to_string()], no_scope(), "", sym_str(1), named_resource(1, "internal"), Permission::Read);
    kani::cover!(true, "COVER:reach");
}

// ---------------------------------------------------------------------------
// statement_matches
// ---------------------------------------------------------------------------

/// A Policy statement applies iff it names the Principal (or nobody in particular),
/// one of the Principal's groups (or none in particular), the permission (or none in
/// particular), the resource, and its conditions hold.
fn statement_block(
    principal_id: String,
    my_groups: Vec<String>,
    principals: Vec<String>,
    groups: Vec<String>,
    actions: Vec<String>,
    scope: AuthorityScope,
    valid_until: String,
    r: ResourceContext,
) {
    let st = statement("deny", principals, groups, actions, scope, ManuallyDrop::into_inner(conditions(Vec::new(), "", "", String::new(), valid_until)), 0);
    let ea = authority(principal_id, "active", "active", false, my_groups, vec![st], Vec::new());
    let st = &ea.statements[0];
    let r = ManuallyDrop::new(r);
    let ctx = auth_ctx("", "", String::new());
    let now = ManuallyDrop::new(sym_str(1));
    let got = ea.statement_matches(st, Permission::Read, &r, &ctx, &now);

    let names_principal = st.principals.len() == 0 || listed(&st.principals, &ea.principal.principal_id);
    let mut in_group = st.groups.len() == 0;
    let mut i = 0;
    while i < st.groups.len() {
        if listed(&ea.groups, &st.groups[i]) {
            in_group = true;
        }
        i += 1;
    }
    let names_action = st.actions.len() == 0 || listed(&st.actions, "read");
    let reaches = r.is_space_scope() || scope_matches(&st.resource, &r);
    let holds = conditions_hold(&st.conditions, &ctx, &now);
    assert!(
        got == (names_principal && in_group && names_action && reaches && holds),
        "OBL:C19.authz.statement_matches_iff"
    );
    kani::cover!(got, "COVER:matches");
    kani::cover!(!got, "COVER:no_match");
}

macro_rules! statement_harness {
    ($name:ident, $pid:expr, $mine:expr, $principals:expr, $groups:expr, $actions:expr, $kinds:expr, $until:expr, $kind:expr) => {
        #[kani::proof]
        #[kani::unwind(10)]
        fn $name() {
            let mut s = no_scope();
            s.kinds = sym_list(&$kinds);
            let r = ResourceContext { kind: sym_str($kind), schema_ref: String::new(), classification: String::new(), element_id: String::new() };
            statement_block(sym_str($pid), sym_list(&$mine), sym_list(&$principals), sym_list(&$groups), sym_list(&$actions), s, sym_str($until), r);
            kani::cover!(true, "COVER:reach");
        }
    };
}
// names nobody / nothing in particular: applies to every Principal, at Space scope
statement_harness!(c19_authz_statement_unrestricted, 1, [], [], [], [], [], 0, 0);
// Principal lists
statement_harness!(c19_authz_statement_principals_1, 1, [], [1], [], [], [], 0, 0);
statement_harness!(c19_authz_statement_principals_2, 1, [], [1, 1], [], [], [], 0, 0);
// groups: statement lists 1 or 2, the Principal is in 0, 1 or 2 (not 2 x 2)
statement_harness!(c19_authz_statement_groups_none_held, 1, [], [], [1], [], [], 0, 0);
statement_harness!(c19_authz_statement_groups_1_1, 1, [1], [], [1], [], [], 0, 0);
statement_harness!(c19_authz_statement_groups_2_1, 1, [1, 1], [], [1], [], [], 0, 0);
statement_harness!(c19_authz_statement_groups_1_2, 1, [1], [], [1, 1], [], [], 0, 0);
// (2 held x 2 listed: CBMC exceeded 12 GB after 139 s — not claimed)
// action names (4 symbolic bytes against "read")
statement_harness!(c19_authz_statement_actions_1, 1, [], [], [], [4], [], 0, 0);
statement_harness!(c19_authz_statement_actions_2, 1, [], [], [], [4, 6], [], 0, 0);
// resource scope (named element vs Space scope) and expiry
statement_harness!(c19_authz_statement_scope_named, 1, [], [], [], [], [1], 0, 1);
statement_harness!(c19_authz_statement_scope_space, 1, [], [], [], [], [1], 0, 0);
statement_harness!(c19_authz_statement_expiry, 1, [], [], [], [], [], 1, 0);
// everything stated at once
statement_harness!(c19_authz_statement_all, 1, [1], [1], [1], [4], [1], 1, 1);
