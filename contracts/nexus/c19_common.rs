//! Shared by the C19 overlay modules hosted in governance/decision.rs (each includes
//! this file as its own private child module `common`, so every unit compiles on its
//! own): byte-level specification helpers and builders of symbolic inputs. Uses only
//! public items of the crate.
#![allow(dead_code)]
use crate::governance::auth::AuthContext;
use crate::governance::rows::AuthorityConditions;
use core::mem::ManuallyDrop;

/// Byte-wise string equality, written out so that specifications do not go through
/// `PartialEq for String` / `str` like the code does.
pub fn is(s: &str, lit: &str) -> bool {
    let (a, b) = (s.as_bytes(), lit.as_bytes());
    if a.len() != b.len() {
        return false;
    }
    let mut i = 0;
    while i < a.len() {
        if a[i] != b[i] {
            return false;
        }
        i += 1;
    }
    true
}

/// `value` is one of the listed values.
pub fn listed(bound: &[String], value: &str) -> bool {
    let mut i = 0;
    while i < bound.len() {
        if is(&bound[i], value) {
            return true;
        }
        i += 1;
    }
    false
}

/// A bound list covers a value iff the list is empty (unrestricted) or the value
/// is a non-empty listed value (documentation of `AuthorityScope` and `covers`).
pub fn spec_covers(bound: &[String], value: &str) -> bool {
    bound.len() == 0 || (value.len() != 0 && listed(bound, value))
}

/// A string of exactly `len` (<= 6) ASCII bytes, every byte symbolic.
pub fn sym_str(len: usize) -> String {
    let mut v: Vec<u8> = Vec::with_capacity(len);
    let mut i = 0;
    while i < len {
        let b: u8 = kani::any();
        kani::assume(b < 0x80);
        v.push(b);
        i += 1;
    }
    unsafe { String::from_utf8_unchecked(v) }
}

/// A list with one symbolic string of the given length per entry of `lens`.
pub fn sym_list(lens: &[usize]) -> Vec<String> {
    let mut v = Vec::with_capacity(lens.len());
    let mut i = 0;
    while i < lens.len() {
        v.push(sym_str(lens[i]));
        i += 1;
    }
    v
}

pub fn auth_ctx(strength: &str, assurance: &str, purpose: String) -> ManuallyDrop<AuthContext> {
    ManuallyDrop::new(AuthContext {
        principal_id: String::new(),
        session_id: String::new(),
        auth_strength: strength.to_string(),
        auth_method: String::new(),
        delegation_chain: Vec::new(),
        purpose,
        purpose_assurance: assurance.to_string(),
        risk: String::new(),
        client: String::new(),
        break_glass: false,
    })
}

pub fn conditions(
    purpose: Vec<String>,
    min_assurance: &str,
    min_strength: &str,
    valid_from: String,
    valid_until: String,
) -> ManuallyDrop<AuthorityConditions> {
    ManuallyDrop::new(AuthorityConditions {
        purpose,
        min_purpose_assurance: min_assurance.to_string(),
        min_auth_strength: min_strength.to_string(),
        valid_from,
        valid_until,
    })
}
