//! C20.eligible — `Context::eligible` (rs/anda_cognitive_nexus/src/projection/mod.rs),
//! stages 4–6 of the projection: lifecycle, temporal and mode eligibility, and the
//! confidence an eligible Assertion is weighed at. It is a sync method that reads
//! nothing of `self`; a `Context` cannot be constructed (async store), so the
//! method is copied VERBATIM (signature + body, every run) into `impl VerifCtx`,
//! a unit struct — the wrapper does not compile if the body starts using `self`.
//! Contract from C20: "retracted, superseded, expired, not-yet-valid and
//! inadmissible-mode assertions contribute nothing but are listed as excluded";
//! stated confidences (0.0 included) are weighed as stated, only the negative
//! sentinel means "unstated" (AssertionRow::confidence documentation).
use super::*;
use core::mem::ManuallyDrop;

pub(super) struct VerifCtx;

#[allow(dead_code)]
impl VerifCtx {
/*@EXTRACT:eligible@*/
}

pub(super) fn stub_format(_args: core::fmt::Arguments<'_>) -> String {
    String::new()
}

/// ASSUMED contract of the serde derive on `AssertionMode` (`rename_all =
/// "lowercase"`), replacing `serde_json::from_value` — whose visitor machinery CBMC
/// does not finish (4 harnesses x 15 min): a JSON string naming a mode in lower
/// case deserializes to that mode, anything else is an error. `eligible` is the
/// only caller reachable from these harnesses and instantiates T = AssertionMode.
pub(super) fn stub_from_value<T: serde::de::DeserializeOwned>(value: Json) -> Result<T, serde_json::Error> {
    assert!(core::mem::size_of::<T>() == core::mem::size_of::<AssertionMode>());
    let m = match &value {
        Json::String(s) => match s.as_str() {
            "observed" => Some(AssertionMode::Observed),
            "stated" => Some(AssertionMode::Stated),
            "inferred" => Some(AssertionMode::Inferred),
            "predicted" => Some(AssertionMode::Predicted),
            "hypothetical" => Some(AssertionMode::Hypothetical),
            "imported" => Some(AssertionMode::Imported),
            _ => None,
        },
        _ => None,
    };
    core::mem::forget(value);
    match m {
        Some(m) => Ok(unsafe { core::mem::transmute_copy::<AssertionMode, T>(&m) }),
        None => Err(<serde_json::Error as serde::de::Error>::custom("")),
    }
}

const T1: &str = "2026-01-01T00:00:00.000Z";
const T2: &str = "2026-01-02T00:00:00.000Z";
const T3: &str = "2026-01-03T00:00:00.000Z";

fn row(status: &str, state: &str, valid_from: &str, valid_until: &str, mode: &str, confidence: f64) -> ManuallyDrop<AssertionRow> {
    let mut r = AssertionRow::default();
    r._id = 7;
    r.status = String::from(status);
    r.state = String::from(state);
    r.valid_from = String::from(valid_from);
    r.valid_until = String::from(valid_until);
    r.mode = String::from(mode);
    r.stance = String::from("support");
    r.asserted_by_key = String::from("alice");
    r.confidence = confidence;
    ManuallyDrop::new(r)
}

fn baseline() -> ManuallyDrop<Policy> {
    ManuallyDrop::new(Policy::baseline())
}

fn reason_of(r: &Result<Candidate, Excluded>) -> Option<&'static str> {
    match r {
        Ok(_) => None,
        Err(e) => Some(e.reason),
    }
}

macro_rules! excluded_harness {
    ($name:ident, $status:expr, $state:expr, $vf:expr, $vu:expr, $mode:expr, $reason:expr) => {
        #[kani::proof]
        #[kani::unwind(34)]
        #[kani::stub(alloc::fmt::format, stub_format)]
        #[kani::stub(serde_json::from_value, stub_from_value)]
        fn $name() {
            let c: f64 = kani::any();
            let r = row($status, $state, $vf, $vu, $mode, c);
            let p = baseline();
            let out = ManuallyDrop::new(VerifCtx.eligible(&r, &p, T2));
            let want: Option<&'static str> = $reason;
            let got = reason_of(&out);
            assert!(!(got.is_none() && want.is_some()), "OBL:C20.eligible.ineligible_contributes_nothing");
            assert!(!(got.is_some() && want.is_none()), "OBL:C20.eligible.eligible_is_admitted");
            kani::cover!(true, "COVER:reach");
        }
    };
}

// Stage 4 — lifecycle
excluded_harness!(c20_eligible_active, "active", "active", "", "", "observed", None);
excluded_harness!(c20_eligible_retracted, "retracted", "active", "", "", "observed", Some("retracted"));
excluded_harness!(c20_eligible_superseded, "superseded", "active", "", "", "observed", Some("superseded"));
excluded_harness!(c20_eligible_expired, "expired", "active", "", "", "observed", Some("expired"));
excluded_harness!(c20_eligible_unknown_status, "draft", "active", "", "", "observed", Some("invalid_schema"));
excluded_harness!(c20_eligible_archived_record, "active", "archived", "", "", "observed", Some("not_visible"));
// Stage 5 — temporal, evaluated at T2
excluded_harness!(c20_eligible_not_yet_valid, "active", "active", T3, "", "observed", Some("outside_valid_time"));
excluded_harness!(c20_eligible_valid_from_now, "active", "active", T2, "", "observed", None);
excluded_harness!(c20_eligible_window_open, "active", "active", T1, T3, "observed", None);
excluded_harness!(c20_eligible_window_ends_now, "active", "active", T1, T2, "observed", Some("outside_valid_time"));
excluded_harness!(c20_eligible_window_over, "active", "active", "", T1, "observed", Some("outside_valid_time"));
// Stage 6 — mode, under the baseline policy
excluded_harness!(c20_eligible_mode_stated, "active", "active", "", "", "stated", None);
excluded_harness!(c20_eligible_mode_hypothetical, "active", "active", "", "", "hypothetical", Some("hypothetical_not_requested"));
excluded_harness!(c20_eligible_mode_predicted, "active", "active", "", "", "predicted", Some("prediction_not_requested"));
excluded_harness!(c20_eligible_mode_missing, "active", "active", "", "", "", Some("invalid_schema"));

/// What an eligible Assertion contributes: its stance, actor and evidence as
/// recorded, never opposing by itself, and its confidence AS STATED — every f64
/// >= 0 including 0.0 ("a real claim of no support") — the policy's
/// unstated_confidence only for the negative sentinel.
#[kani::proof]
#[kani::unwind(34)]
#[kani::stub(alloc::fmt::format, stub_format)]
#[kani::stub(serde_json::from_value, stub_from_value)]
fn c20_eligible_confidence() {
    let c: f64 = kani::any();
    kani::assume(!c.is_nan());
    let r = row("active", "active", "", "", "observed", c);
    let p = baseline();
    let out = ManuallyDrop::new(VerifCtx.eligible(&r, &p, T2));
    match &*out {
        Ok(cand) => {
            if c >= 0.0 {
                assert!(cand.confidence == c, "OBL:C20.eligible.stated_confidence_is_used_as_stated");
            } else {
                assert!(cand.confidence == p.unstated_confidence, "OBL:C20.eligible.unstated_confidence_from_policy");
            }
            assert!(!cand.opposes_target, "OBL:C20.eligible.candidate_copies_the_record");
            assert!(cand.id.seq == 7, "OBL:C20.eligible.candidate_copies_the_record");
            assert!(cand.stance.as_str() == "support" && cand.actor.as_str() == "alice" && cand.evidence.is_empty(), "OBL:C20.eligible.candidate_copies_the_record");
        }
        Err(_) => {}
    }
    assert!(out.is_ok(), "OBL:C20.eligible.eligible_is_admitted");
    kani::cover!(c == 0.0, "COVER:stated_zero");
    kani::cover!(c < 0.0, "COVER:unstated");
    kani::cover!(true, "COVER:reach");
}
