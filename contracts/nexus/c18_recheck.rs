//! C18.recheck — the row re-checks of historical (AS OF) tuple matching in
//! rs/anda_cognitive_nexus/src/kql/matching.rs. A present-day read pushes its
//! constraints (space, state = active, anchor key, predicate in the symbol set) into
//! the index query; a historical read cannot — the index knows only the present —
//! so it loads candidate versions and re-applies the constraints to each ROW. C18
//! ("any query evaluated as of that point returns exactly what the same query
//! returned when that point was the present") therefore needs: the historical
//! re-check accepts a row IF AND ONLY IF the live index filter of the same function
//! would have matched it. Three kernels, copied verbatim on every run:
//!   K1 `Context::neighbours` (one hop of a path walk): the `if historical { … }` block;
//!   K2 `Context::tuple_subjects`: the one-line historical filter;
//!   K3 `tuple_matches` (exact tuple patterns): the whole sync function, IN PLACE.
//! Added after seed C18a (K1 no longer requiring state == active) slipped through.
use super::*;
use core::mem::ManuallyDrop;

/// The fields of `PropositionRow` the kernels read.
pub(super) struct Row {
    subject_key: String,
    object_key: String,
    state: String,
    predicate_ref: String,
}

/// K1. Free variables: historical, forward, row, anchor_key, symbols. `true` =
/// the row survives the block (its endpoint is walked).
fn slice_neighbours_recheck(historical: bool, forward: bool, row: &Row, anchor: &String, symbols: &[String]) -> bool {
    let anchor_key: String = anchor.clone(); // `let anchor_key = from.key();` in the real function
    for _ in 0..1 {
/*@EXTRACT:neighbours_recheck@*/
        return true;
    }
    false
}

/// K2. Free variables: historical, row, symbols.
fn slice_tuple_subjects_recheck(historical: bool, row: &Row, symbols: &[String]) -> bool {
    for _ in 0..1 {
/*@EXTRACT:tuple_subjects_recheck@*/
        return true;
    }
    false
}

const STATES: [&str; 3] = ["active", "archived", "tombstoned"];

fn row(state: &str, subject: &str, object: &str, predicate: &str) -> ManuallyDrop<Row> {
    ManuallyDrop::new(Row {
        subject_key: String::from(subject),
        object_key: String::from(object),
        state: String::from(state),
        predicate_ref: String::from(predicate),
    })
}

fn syms() -> ManuallyDrop<Vec<String>> {
    let mut v = Vec::with_capacity(2);
    v.push(String::from("p"));
    v.push(String::from("q"));
    ManuallyDrop::new(v)
}

/// K1 on the full table: 3 record states x anchor (matches / does not, on the
/// subject or object side) x predicate (in the walked set / not) x direction.
#[kani::proof]
#[kani::unwind(12)]
fn c18_recheck_neighbours() {
    let symbols = syms();
    let anchor = ManuallyDrop::new(String::from("A"));
    let mut s = 0;
    while s < 3 {
        let mut k = 0;
        while k < 8 {
            let subj_is_anchor = k & 1 != 0;
            let obj_is_anchor = k & 2 != 0;
            let pred_in = k & 4 != 0;
            let r = row(STATES[s], if subj_is_anchor { "A" } else { "B" }, if obj_is_anchor { "A" } else { "C" }, if pred_in { "q" } else { "z" });
            let mut d = 0;
            while d < 2 {
                let forward = d == 0;
                let anchored = if forward { subj_is_anchor } else { obj_is_anchor };
                // what the live index filter of `neighbours` matches
                let live = s == 0 && anchored && pred_in;
                let got = slice_neighbours_recheck(true, forward, &r, &anchor, &symbols);
                assert!(!got || s == 0, "OBL:C18.recheck.inactive_version_is_not_walked");
                assert!(got == live, "OBL:C18.recheck.neighbours_agrees_with_the_live_filter");
                d += 1;
            }
            k += 1;
        }
        s += 1;
    }
    kani::cover!(true, "COVER:reach");
}

/// K2 on the full table.
#[kani::proof]
#[kani::unwind(8)]
fn c18_recheck_tuple_subjects() {
    let symbols = syms();
    let mut s = 0;
    while s < 3 {
        let mut k = 0;
        while k < 2 {
            let pred_in = k == 1;
            let r = row(STATES[s], "A", "B", if pred_in { "p" } else { "z" });
            let got = slice_tuple_subjects_recheck(true, &r, &symbols);
            assert!(!got || s == 0, "OBL:C18.recheck.inactive_version_is_not_walked");
            assert!(got == (s == 0 && pred_in), "OBL:C18.recheck.tuple_subjects_agrees_with_the_live_filter");
            k += 1;
        }
        s += 1;
    }
    kani::cover!(true, "COVER:reach");
}

/// K3 `tuple_matches` in place, with both endpoints bound to variables and the
/// predicate fixed: an inactive version never matches; an active one matches iff
/// its predicate is in the set.
#[kani::proof]
#[kani::unwind(8)]
fn c18_recheck_tuple_matches() {
    let subject = ManuallyDrop::new(EndpointSlot::Bind(String::new()));
    let object = ManuallyDrop::new(EndpointSlot::Bind(String::new()));
    let predicates = ManuallyDrop::new(PredicateSlot::Fixed({
        let mut v = Vec::with_capacity(2);
        v.push(String::from("p"));
        v
    }));
    let any_pred = ManuallyDrop::new(PredicateSlot::Bind(String::new()));
    let mut s = 0;
    while s < 3 {
        let mut k = 0;
        while k < 2 {
            let pred_in = k == 1;
            let mut r = crate::store::rows::PropositionRow::default();
            r.state = String::from(STATES[s]);
            r.predicate_ref = String::from(if pred_in { "p" } else { "z" });
            let r = ManuallyDrop::new(r);
            let got = tuple_matches(&r, &subject, &object, &predicates);
            assert!(!got || s == 0, "OBL:C18.recheck.inactive_version_is_not_walked");
            assert!(got == (s == 0 && pred_in), "OBL:C18.recheck.tuple_matches_agrees_with_the_live_filter");
            assert!(tuple_matches(&r, &subject, &object, &any_pred) == (s == 0), "OBL:C18.recheck.tuple_matches_agrees_with_the_live_filter");
            k += 1;
        }
        s += 1;
    }
    kani::cover!(true, "COVER:reach");
}
