//! C13.upgrade — "documents written under an older schema version remain readable
//! with unchanged surviving fields after every permitted schema upgrade": a field
//! added by an upgrade must never be given an index this schema lineage has ever
//! allocated — a retired index may still carry stale values in stored documents.
//! Added after seed C13c (the apply pass of `Schema::upgrade_with` starting from
//! `max(declared idx) + 1` instead of the allocation watermark) slipped through.
//!
//! `Schema::allocated_idx_end` (verbatim into a view struct with the two fields it
//! reads) and the statement of `upgrade_with` that picks the first index of the
//! apply pass (slice) are copied on every run. Stand-in: the declared-index set
//! (`BTreeSet<usize>`: only `last()` is called — std BTreeSet search makes
//! kani-compiler 0.68 panic, DESIGN §10). The two passes over the field maps
//! (BTreeMap) are NOT under contract.
struct VerifIdxSet(Option<usize>);
impl VerifIdxSet {
    fn last(&self) -> Option<&usize> {
        self.0.as_ref()
    }
}
struct VerifSchemaView {
    /// the persisted allocation watermark (0 for schemas persisted before it existed)
    next_idx: usize,
    idx: VerifIdxSet,
}
impl VerifSchemaView {
/*@EXTRACT:allocated_idx_end@*/
}

fn verif_first_new_index(old: &VerifSchemaView) -> usize {
/*@EXTRACT:apply_pass_start@*/
    next_idx
}

#[kani::proof]
#[kani::unwind(2)]
fn c13_upgrade_first_new_index() {
    let watermark: usize = kani::any();
    let max_declared: Option<usize> = kani::any();
    kani::assume(max_declared.is_none_or(|m| m < usize::MAX));
    let old = VerifSchemaView { next_idx: watermark, idx: VerifIdxSet(max_declared) };
    let first = verif_first_new_index(&old);
    // never an index the lineage already allocated: at or above the watermark ...
    assert!(first >= watermark, "OBL:C13.upgrade.new_field_never_reuses_a_retired_index");
    // ... and above every index still declared
    assert!(max_declared.is_none_or(|m| first > m), "OBL:C13.upgrade.new_field_never_collides_with_a_declared_index");
    kani::cover!(max_declared.is_some_and(|m| m + 1 < watermark), "COVER:top_field_was_removed_earlier");
    kani::cover!(true, "COVER:reach");
}
