//! C13.shapes — the C13.leaf sentences on fixed composite shapes (`Array`,
//! `Option`, `Vector` arms of `FieldType::validate_inner` / `normalize_at`),
//! type nesting depth <= 3, <= 2 elements (3 for the arity check). Child module
//! of `anda_db_schema::field` (cfg(kani), scratch copy only). Shape concrete,
//! payloads symbolic over their full domain.
use super::*;
use core::mem::ManuallyDrop;

#[path = "c13_spec.rs"]
mod spec;
use spec::*;

/// "nothing invalid gets in" / "what the documentation promises is accepted".
fn generic_accept(accepted: bool, member: bool) {
    assert!(!accepted || member, "OBL:C13.shapes.nothing_invalid");
    assert!(!member || accepted, "OBL:C13.shapes.accepts_documented");
    kani::cover!(accepted, "COVER:accepted");
    kani::cover!(!accepted, "COVER:rejected");
}

/// "returned in the declared variant, value unchanged", after `normalize`.
/// (Not claimed here: "a rejected value is left unchanged" — inside a rejected
/// composite the elements that ARE read-back shapes may be normalized.)
fn generic_post(t: &FieldType, before: &FieldValue, v: &FieldValue, accepted: bool) {
    let r2 = ManuallyDrop::new(t.validate_inner(v));
    assert!(!accepted || spec_declared_variant(t, v), "OBL:C13.shapes.declared_variant");
    assert!(!accepted || r2.is_ok(), "OBL:C13.shapes.revalidates");
    assert!(!accepted || spec_same_value(before, v), "OBL:C13.shapes.value_preserved");
    // normalize-then-validate is the order used at every materialization
    // boundary: normalization must not launder an invalid value into a valid one
    assert!(accepted || r2.is_err(), "OBL:C13.shapes.rejected_stays_rejected");
}

/// As `generic_post`, without the second validation after normalize. Used for the
/// shapes with an `Option` type below another composite, where a
/// `validate_inner` call AFTER `normalize` did not finish (measured 300-600 s
/// timeouts, with and without `--max-field-sensitivity-array-size 4096`; CBMC
/// no longer constant-folds the value tag after exploring `normalize_at` two
/// type levels down). "revalidates" and "rejected_stays_rejected" are NOT
/// machine-checked for these shapes; instead the normalized result is pinned
/// down exactly (per-shape obligation), that canonical value is itself an input
/// cell (`*_canon`), and a rejected value must come back bit-identical (these
/// shapes have a single re-typable element).
fn generic_post_nr(t: &FieldType, before: &FieldValue, v: &FieldValue, accepted: bool) {
    assert!(!accepted || spec_declared_variant(t, v), "OBL:C13.shapes.declared_variant");
    assert!(!accepted || spec_same_value(before, v), "OBL:C13.shapes.value_preserved");
    assert!(accepted || spec_unchanged(before, v), "OBL:C13.shapes.rejected_unchanged");
}

/// One shape = one harness. `accept` states the shape's own acceptance sentence,
/// `after` its own normalized result; they are asserted BEFORE the general
/// sentences (Kani assumes an assertion after checking it, so of two assertions
/// refuted by the same executions only the first is reported).
macro_rules! shape_impl {
    ($post:ident, $name:ident, $unwind:expr, $t:expr, [$($p:ident : $pt:ty),*], $v:expr,
     accept: |$acc:ident| $pre:block, after: |$acc2:ident, $after:ident| $postb:block) => {
        #[kani::proof]
        #[kani::unwind($unwind)]
        #[kani::stub(alloc::fmt::format, stub_format)]
        #[kani::stub(FieldValue::try_into_cbor, stub_try_into_cbor)]
        #[kani::stub(FieldValue::json_from, stub_json_from)]
        fn $name() {
            $(let $p: $pt = kani::any();)*
            let t = ManuallyDrop::new($t);
            let before = ManuallyDrop::new($v);
            let mut v = ManuallyDrop::new($v);
            let member = spec_member(&t, &before);
            let r = ManuallyDrop::new(t.validate_inner(&v));
            let accepted = r.is_ok();
            {
                let $acc: bool = accepted;
                $pre;
            }
            generic_accept(accepted, member);
            t.normalize(&mut v);
            {
                let $acc2: bool = accepted;
                let $after: &FieldValue = &v;
                $postb;
            }
            $post(&t, &before, &v, accepted);
            kani::cover!(true, "COVER:reach");
        }
    };
}
macro_rules! shape {
    ($($rest:tt)*) => { shape_impl!(generic_post, $($rest)*); };
}
macro_rules! shape_nr {
    ($($rest:tt)*) => { shape_impl!(generic_post_nr, $($rest)*); };
}

fn opt(t: FieldType) -> FieldType {
    FieldType::Option(Box::new(t))
}
fn arr(ts: Vec<FieldType>) -> FieldType {
    FieldType::Array(ts)
}
fn av(vs: Vec<FieldValue>) -> FieldValue {
    FieldValue::Array(vs)
}
fn i64_max() -> u64 {
    0x7FFF_FFFF_FFFF_FFFF
}

/// v == [x, y] with the two given element predicates
macro_rules! is_pair {
    ($v:expr, $p0:pat $(if $g0:expr)?, $p1:pat $(if $g1:expr)?) => {
        matches!($v, FieldValue::Array(vs) if vs.len() == 2
            && matches!(&vs[0], $p0 $(if $g0)?)
            && matches!(&vs[1], $p1 $(if $g1)?))
    };
}

// ---- Option<Array[I64]>, two elements: element-wise acceptance / read-back ----
shape!(c13_shape_opt_array_i64_pair, 4, opt(arr(vec![FieldType::I64])), [a: u64, b: i64],
    av(vec![FieldValue::U64(a), FieldValue::I64(b)]),
    accept: |acc| { assert!(acc == (a <= i64_max()), "OBL:C13.shapes.elementwise"); },
    after: |acc, after| {
        assert!(
            !acc || is_pair!(after, FieldValue::I64(x) if *x == a as i64, FieldValue::I64(y) if *y == b),
            "OBL:C13.shapes.elementwise"
        );
    });
shape!(c13_shape_opt_array_i64_null, 4, opt(arr(vec![FieldType::I64])), [], FieldValue::Null,
    accept: |acc| { assert!(acc, "OBL:C13.shapes.nested_option"); },
    after: |_acc, after| { assert!(matches!(after, FieldValue::Null), "OBL:C13.shapes.nested_option"); });
// Null inside a required slot
shape!(c13_shape_array_i64_null_elem, 4, opt(arr(vec![FieldType::I64])), [a: u64],
    av(vec![FieldValue::U64(a), FieldValue::Null]),
    accept: |acc| { assert!(!acc, "OBL:C13.shapes.null_in_required_slot"); },
    after: |_acc, _after| {});
// ... but fine in an optional slot
shape_nr!(c13_shape_array_opt_i64_mixed, 4, arr(vec![opt(FieldType::I64)]), [a: u64],
    av(vec![FieldValue::Null, FieldValue::U64(a)]),
    accept: |acc| { assert!(acc == (a <= i64_max()), "OBL:C13.shapes.nested_option"); },
    after: |acc, after| {
        assert!(
            !acc || is_pair!(after, FieldValue::Null, FieldValue::I64(x) if *x == a as i64),
            "OBL:C13.shapes.nested_option"
        );
    });
shape_nr!(c13_shape_array_opt_i64_canon, 4, arr(vec![opt(FieldType::I64)]), [i: i64],
    av(vec![FieldValue::Null, FieldValue::I64(i)]),
    accept: |acc| { assert!(acc, "OBL:C13.shapes.nested_option"); },
    after: |_acc, after| {
        assert!(
            is_pair!(after, FieldValue::Null, FieldValue::I64(x) if *x == i),
            "OBL:C13.shapes.nested_option"
        );
    });

// ---- tuple Array[I64, F32]: per-slot types, arity enforced ----
shape!(c13_shape_tuple_i64_f32, 4, arr(vec![FieldType::I64, FieldType::F32]), [a: u64, x: f64],
    av(vec![FieldValue::U64(a), FieldValue::F64(x)]),
    accept: |acc| {
        assert!(acc == (a <= i64_max() && spec_is_f32_widening(x)), "OBL:C13.shapes.elementwise");
    },
    after: |acc, after| {
        assert!(
            !acc || is_pair!(after, FieldValue::I64(p) if *p == a as i64, FieldValue::F32(q) if f64::from(*q) == x),
            "OBL:C13.shapes.elementwise"
        );
    });
// slots are positional: the same two kinds of value swapped are not a value of the tuple
shape!(c13_shape_tuple_swapped, 4, arr(vec![FieldType::I64, FieldType::F32]), [i: i64, y: f32],
    av(vec![FieldValue::F32(y), FieldValue::I64(i)]),
    accept: |acc| { assert!(!acc, "OBL:C13.shapes.elementwise"); },
    after: |_acc, _after| {});
shape!(c13_shape_tuple_arity1, 4, arr(vec![FieldType::I64, FieldType::F32]), [i: i64],
    av(vec![FieldValue::I64(i)]),
    accept: |acc| { assert!(!acc, "OBL:C13.shapes.arity_enforced"); },
    after: |_acc, _after| {});
// Three elements = a 96-byte heap buffer: needs the unit's
// `--max-field-sensitivity-array-size` (CBMC's default limit of 64 loses the
// element tags: 600 s timeout without it, 14 s with it).
shape!(c13_shape_tuple_arity3, 5, arr(vec![FieldType::I64, FieldType::F32]), [i: i64, y: f32, j: i64],
    av(vec![FieldValue::I64(i), FieldValue::F32(y), FieldValue::I64(j)]),
    accept: |acc| { assert!(!acc, "OBL:C13.shapes.arity_enforced"); },
    after: |_acc, _after| {});
shape!(c13_shape_tuple_arity0, 4, arr(vec![FieldType::I64, FieldType::F32]), [],
    av(Vec::new()),
    accept: |acc| { assert!(!acc, "OBL:C13.shapes.arity_enforced"); },
    after: |_acc, _after| {});

// ---- Array[] (heterogeneous): nothing declared about the elements ----
shape!(c13_shape_hetero_a, 4, arr(Vec::new()), [b: bool, u: u64],
    av(vec![FieldValue::Bool(b), FieldValue::U64(u)]),
    accept: |acc| { assert!(acc, "OBL:C13.shapes.hetero_accepts_anything"); },
    after: |_acc, after| {
        // ... and nothing is re-typed
        assert!(
            is_pair!(after, FieldValue::Bool(p) if *p == b, FieldValue::U64(q) if *q == u),
            "OBL:C13.shapes.hetero_accepts_anything"
        );
    });
shape!(c13_shape_hetero_b, 4, arr(Vec::new()), [i: i64],
    av(vec![FieldValue::Null, FieldValue::I64(i)]),
    accept: |acc| { assert!(acc, "OBL:C13.shapes.hetero_accepts_anything"); },
    after: |_acc, _after| {});
// ... but a non-array is still not an array
shape!(c13_shape_hetero_scalar, 4, arr(Vec::new()), [u: u64], FieldValue::U64(u),
    accept: |acc| { assert!(!acc, "OBL:C13.shapes.hetero_accepts_anything"); },
    after: |_acc, _after| {});

// ---- Option<Option<U64>> ----
shape_nr!(c13_shape_opt_opt_u64_some, 4, opt(opt(FieldType::U64)), [u: u64], FieldValue::U64(u),
    accept: |acc| { assert!(acc, "OBL:C13.shapes.nested_option"); },
    after: |_acc, after| {
        assert!(matches!(after, FieldValue::U64(x) if *x == u), "OBL:C13.shapes.nested_option");
    });
shape!(c13_shape_opt_opt_u64_null, 4, opt(opt(FieldType::U64)), [], FieldValue::Null,
    accept: |acc| { assert!(acc, "OBL:C13.shapes.nested_option"); },
    after: |_acc, after| { assert!(matches!(after, FieldValue::Null), "OBL:C13.shapes.nested_option"); });
shape!(c13_shape_opt_opt_u64_i64, 4, opt(opt(FieldType::U64)), [i: i64], FieldValue::I64(i),
    accept: |acc| { assert!(!acc, "OBL:C13.shapes.nested_option"); },
    after: |_acc, _after| {});

// ---- Vector <-> Array[U64 <= 0xFFFF] ----
shape!(c13_shape_vector_from_bits, 4, FieldType::Vector, [a: u64, b: u64],
    av(vec![FieldValue::U64(a), FieldValue::U64(b)]),
    accept: |acc| { assert!(acc == (a <= 0xFFFF && b <= 0xFFFF), "OBL:C13.shapes.vector_bits"); },
    after: |acc, after| {
        assert!(
            !acc || matches!(after, FieldValue::Vector(vs) if vs.len() == 2
                && vs[0].to_bits() as u64 == a && vs[1].to_bits() as u64 == b),
            "OBL:C13.shapes.vector_bits"
        );
        // a rejected array of integers must not come back as a (truncated) Vector
        assert!(acc || !matches!(after, FieldValue::Vector(_)), "OBL:C13.shapes.vector_bits");
    });
shape!(c13_shape_vector_own, 4, FieldType::Vector, [p: u16, q: u16],
    FieldValue::Vector(vec![bf16::from_bits(p), bf16::from_bits(q)]),
    accept: |acc| { assert!(acc, "OBL:C13.shapes.vector_bits"); },
    after: |_acc, after| {
        assert!(
            matches!(after, FieldValue::Vector(vs) if vs.len() == 2
                && vs[0].to_bits() == p && vs[1].to_bits() == q),
            "OBL:C13.shapes.vector_bits"
        );
    });
shape!(c13_shape_vector_bad_elem, 4, FieldType::Vector, [a: u64, i: i64],
    av(vec![FieldValue::U64(a), FieldValue::I64(i)]),
    accept: |acc| { assert!(!acc, "OBL:C13.shapes.vector_bits"); },
    after: |_acc, _after| {});

// ---- type nesting depth 3: Option<Array[Option<I64>]> — read-back shapes are
// normalized below two composite levels, Null is accepted in the optional slot ----
shape_nr!(c13_shape_depth3_mixed, 4, opt(arr(vec![opt(FieldType::I64)])), [a: u64],
    av(vec![FieldValue::Null, FieldValue::U64(a)]),
    accept: |acc| { assert!(acc == (a <= i64_max()), "OBL:C13.shapes.elementwise"); },
    after: |acc, after| {
        assert!(
            !acc || is_pair!(after, FieldValue::Null, FieldValue::I64(x) if *x == a as i64),
            "OBL:C13.shapes.elementwise"
        );
    });
shape!(c13_shape_depth3_null, 4, opt(arr(vec![opt(FieldType::I64)])), [], FieldValue::Null,
    accept: |acc| { assert!(acc, "OBL:C13.shapes.nested_option"); },
    after: |_acc, after| { assert!(matches!(after, FieldValue::Null), "OBL:C13.shapes.nested_option"); });
shape_nr!(c13_shape_depth3_canon, 4, opt(arr(vec![opt(FieldType::I64)])), [i: i64],
    av(vec![FieldValue::Null, FieldValue::I64(i)]),
    accept: |acc| { assert!(acc, "OBL:C13.shapes.elementwise"); },
    after: |_acc, after| {
        assert!(
            is_pair!(after, FieldValue::Null, FieldValue::I64(x) if *x == i),
            "OBL:C13.shapes.elementwise"
        );
    });
