//! C13 — specification predicates shared by the C13 overlay modules
//! (`c13_leaf.rs`, `c13_shapes.rs`). Loaded as `mod spec` of each overlay module,
//! which is itself a child module of `anda_db_schema::field` (cfg(kani), scratch
//! copy only).
//!
//! Everything here is written from the property sentence ("nothing invalid gets
//! in", "returned in the declared variant, value unchanged") and from the
//! documented read-back aliases of `FieldType::validate`:
//!   * an `I64` field may be observed as a `U64` that an i64 can hold,
//!   * an `F32` field may be observed as an `F64` that is the exact widening of
//!     some f32 (CBOR read-back),
//!   * a `Vector` field may be observed as an array of `U64` bf16 bit patterns,
//!   * `Null` is a value of `Option<T>` only, NaN is a value of no type.
//! None of it calls the code under contract.
#![allow(dead_code)]
use super::super::*;

/// Error text is never part of a property.
pub fn stub_format(_args: core::fmt::Arguments<'_>) -> String {
    String::new()
}

/// `FieldType::Json` is not under contract, and no harness declares a `Json`
/// type, so the `Json` arms of `normalize_at` / `extract_at` are dead code here.
/// CBMC's symbolic execution nevertheless walks into them whenever it cannot
/// constant-fold a type tag read through the heap (measured: serde
/// deserialization + BTreeMap drop glue, > 10 min). Their two entry points are
/// therefore replaced by stubs that FAIL the run if they are ever reached.
pub fn stub_try_into_cbor(v: FieldValue) -> Result<Cbor, SchemaError> {
    core::mem::forget(v);
    assert!(false, "C13: FieldValue::try_into_cbor reached (Json arm, not under contract)");
    Ok(Cbor::Null)
}
pub fn stub_json_from(v: Cbor) -> Result<FieldValue, SchemaError> {
    core::mem::forget(v);
    assert!(false, "C13: FieldValue::json_from reached (Json arm, not under contract)");
    Ok(FieldValue::Null)
}

/// IEEE-754: `x` is a number an `f32` can hold exactly (so it is the CBOR
/// read-back of that f32). Stated on the binary64 bit pattern, independent of
/// the `as f32` / `f64::from` casts the code uses:
/// sign(1) | biased exponent(11) | fraction(52).
pub fn spec_is_f32_widening(x: f64) -> bool {
    let bits = x.to_bits();
    let biased = ((bits >> 52) & 0x7ff) as i32;
    let frac = bits & ((1u64 << 52) - 1);
    if biased == 0x7ff {
        // infinities are f32 values; NaN is a value of no type
        return frac == 0;
    }
    if biased == 0 {
        // +-0 are f32 values; binary64 subnormals (< 2^-1022) are far below the
        // smallest binary32 subnormal 2^-149
        return frac == 0;
    }
    let e = biased - 1023;
    if e > 127 {
        // beyond the binary32 range
        return false;
    }
    if e >= -126 {
        // binary32 normal: 23 fraction bits, the other 29 must be zero
        return frac & ((1u64 << 29) - 1) == 0;
    }
    if e >= -149 {
        // binary32 subnormal: a multiple of 2^-149, i.e. only the top (e + 149)
        // fraction bits may be set
        let keep = (e + 149) as u32; // 0..=22
        return frac & ((1u64 << (52 - keep)) - 1) == 0;
    }
    false
}

/// `v` is a value of declared type `t` — the declared variant, or one of the
/// documented read-back aliases. (`Json` and `Map` are not under contract.)
pub fn spec_member(t: &FieldType, v: &FieldValue) -> bool {
    match t {
        // Null is a value of Option<T>, and so is every value of T
        FieldType::Option(inner) => matches!(v, FieldValue::Null) || spec_member(inner, v),
        FieldType::Bool => matches!(v, FieldValue::Bool(_)),
        FieldType::I64 => match v {
            FieldValue::I64(_) => true,
            // a U64 that denotes a number an i64 can hold (sign bit clear)
            FieldValue::U64(u) => (*u >> 63) == 0,
            _ => false,
        },
        FieldType::U64 => matches!(v, FieldValue::U64(_)),
        // NaN (the only float not equal to itself) is a value of no type
        FieldType::F64 => match v {
            FieldValue::F64(x) => *x == *x,
            _ => false,
        },
        FieldType::F32 => match v {
            FieldValue::F32(x) => *x == *x,
            FieldValue::F64(x) => spec_is_f32_widening(*x),
            _ => false,
        },
        FieldType::Bytes => matches!(v, FieldValue::Bytes(_)),
        FieldType::Text => matches!(v, FieldValue::Text(_)),
        FieldType::Vector => match v {
            FieldValue::Vector(_) => true,
            FieldValue::Array(vals) => {
                let mut i = 0;
                while i < vals.len() {
                    match &vals[i] {
                        FieldValue::U64(u) if *u <= 0xFFFF => {}
                        _ => return false,
                    }
                    i += 1;
                }
                true
            }
            _ => false,
        },
        FieldType::Array(types) => match v {
            FieldValue::Array(vals) => {
                if types.is_empty() {
                    // heterogeneous array: nothing declared about the elements
                    return true;
                }
                if types.len() > 1 && vals.len() != types.len() {
                    // tuple arity
                    return false;
                }
                let mut i = 0;
                while i < vals.len() {
                    let et = if types.len() == 1 { &types[0] } else { &types[i] };
                    if !spec_member(et, &vals[i]) {
                        return false;
                    }
                    i += 1;
                }
                true
            }
            _ => false,
        },
        FieldType::Json | FieldType::Map(_) => panic!("C13: Json / Map are not under contract"),
    }
}

/// `v` is in `t`'s own (declared) variant, at every level.
pub fn spec_declared_variant(t: &FieldType, v: &FieldValue) -> bool {
    match t {
        FieldType::Option(inner) => matches!(v, FieldValue::Null) || spec_declared_variant(inner, v),
        FieldType::Bool => matches!(v, FieldValue::Bool(_)),
        FieldType::I64 => matches!(v, FieldValue::I64(_)),
        FieldType::U64 => matches!(v, FieldValue::U64(_)),
        FieldType::F64 => matches!(v, FieldValue::F64(_)),
        FieldType::F32 => matches!(v, FieldValue::F32(_)),
        FieldType::Bytes => matches!(v, FieldValue::Bytes(_)),
        FieldType::Text => matches!(v, FieldValue::Text(_)),
        FieldType::Vector => matches!(v, FieldValue::Vector(_)),
        FieldType::Array(types) => match v {
            FieldValue::Array(vals) => {
                if types.is_empty() {
                    return true;
                }
                let mut i = 0;
                while i < vals.len() {
                    let et = if types.len() == 1 { &types[0] } else { &types[i] };
                    if !spec_declared_variant(et, &vals[i]) {
                        return false;
                    }
                    i += 1;
                }
                true
            }
            _ => false,
        },
        FieldType::Json | FieldType::Map(_) => panic!("C13: Json / Map are not under contract"),
    }
}

fn same_bytes(a: &[u8], b: &[u8]) -> bool {
    if a.len() != b.len() {
        return false;
    }
    let mut i = 0;
    while i < a.len() {
        if a[i] != b[i] {
            return false;
        }
        i += 1;
    }
    true
}

/// `after` denotes the same value as `before`: bit-identical in the same
/// variant, or the same number across the three documented re-typings
/// (U64 -> I64, F64 -> F32, Array of bit patterns -> Vector).
pub fn spec_same_value(before: &FieldValue, after: &FieldValue) -> bool {
    match (before, after) {
        (FieldValue::Bool(a), FieldValue::Bool(b)) => *a == *b,
        (FieldValue::I64(a), FieldValue::I64(b)) => *a == *b,
        (FieldValue::U64(a), FieldValue::U64(b)) => *a == *b,
        (FieldValue::U64(a), FieldValue::I64(b)) => *b >= 0 && *a == *b as u64,
        (FieldValue::F64(a), FieldValue::F64(b)) => a.to_bits() == b.to_bits(),
        (FieldValue::F32(a), FieldValue::F32(b)) => a.to_bits() == b.to_bits(),
        (FieldValue::F64(a), FieldValue::F32(b)) => f64::from(*b) == *a,
        (FieldValue::Bytes(a), FieldValue::Bytes(b)) => same_bytes(a, b),
        (FieldValue::Text(a), FieldValue::Text(b)) => same_bytes(a.as_bytes(), b.as_bytes()),
        (FieldValue::Null, FieldValue::Null) => true,
        (FieldValue::Vector(a), FieldValue::Vector(b)) => {
            if a.len() != b.len() {
                return false;
            }
            let mut i = 0;
            while i < a.len() {
                if a[i].to_bits() != b[i].to_bits() {
                    return false;
                }
                i += 1;
            }
            true
        }
        (FieldValue::Array(a), FieldValue::Vector(b)) => {
            if a.len() != b.len() {
                return false;
            }
            let mut i = 0;
            while i < a.len() {
                match &a[i] {
                    FieldValue::U64(u) if *u == b[i].to_bits() as u64 => {}
                    _ => return false,
                }
                i += 1;
            }
            true
        }
        (FieldValue::Array(a), FieldValue::Array(b)) => {
            if a.len() != b.len() {
                return false;
            }
            let mut i = 0;
            while i < a.len() {
                if !spec_same_value(&a[i], &b[i]) {
                    return false;
                }
                i += 1;
            }
            true
        }
        _ => false,
    }
}

/// `after` is `before`, untouched: same variant at every level, same bits.
pub fn spec_unchanged(before: &FieldValue, after: &FieldValue) -> bool {
    match (before, after) {
        (FieldValue::U64(_), FieldValue::I64(_)) => false,
        (FieldValue::F64(_), FieldValue::F32(_)) => false,
        (FieldValue::Array(_), FieldValue::Vector(_)) => false,
        (FieldValue::Array(a), FieldValue::Array(b)) => {
            if a.len() != b.len() {
                return false;
            }
            let mut i = 0;
            while i < a.len() {
                if !spec_unchanged(&a[i], &b[i]) {
                    return false;
                }
                i += 1;
            }
            true
        }
        _ => spec_same_value(before, after),
    }
}

/// A NaN payload directly in `v`.
pub fn spec_is_nan(v: &FieldValue) -> bool {
    match v {
        FieldValue::F64(x) => *x != *x,
        FieldValue::F32(x) => *x != *x,
        _ => false,
    }
}

/// The value extracted from CBOR scalar `c` denotes what `c` denotes.
/// (`Float -> F32`: "precision truncation is accepted, a finite value outside
/// the f32 range is rejected instead of silently becoming infinite"; a stored
/// f32, read back as its exact widening, is restored exactly.)
pub fn spec_extracted(c: &Cbor, v: &FieldValue) -> bool {
    match (c, v) {
        (Cbor::Null, FieldValue::Null) => true,
        (Cbor::Bool(a), FieldValue::Bool(b)) => *a == *b,
        (Cbor::Integer(i), FieldValue::I64(b)) => i128::from(*i) == *b as i128,
        (Cbor::Integer(i), FieldValue::U64(b)) => i128::from(*i) == *b as i128,
        (Cbor::Float(a), FieldValue::F64(b)) => a.to_bits() == b.to_bits(),
        (Cbor::Float(a), FieldValue::F32(b)) => {
            (!spec_is_f32_widening(*a) || f64::from(*b) == *a)
                && (!(a.is_finite()) || b.is_finite())
                && *b == *b
        }
        (Cbor::Bytes(a), FieldValue::Bytes(b)) => same_bytes(a, b),
        (Cbor::Text(a), FieldValue::Text(b)) => same_bytes(a.as_bytes(), b.as_bytes()),
        _ => false,
    }
}

/// Smallest binary64 magnitude that rounds (to nearest, ties to even) to a
/// binary32 infinity: f32::MAX + half an ulp = 0x1.ffffffp127.
const F32_OVERFLOW_THRESHOLD_BITS: u64 = 0x47EF_FFFF_F000_0000;

/// CBOR scalar `c` "matches" declared type `t` — what `FieldType::extract`
/// documents it requires: the CBOR kind of T, integers within the range of the
/// declared integer type, floats not NaN, an `F32` not finite-but-beyond the f32
/// range ("rejected instead of silently becoming infinite"), `null` for
/// `Option` only. (`Bytes` additionally accepts an array of 0..=255 integers —
/// not a scalar, not in this table.)
pub fn spec_cbor_matches(t: &FieldType, c: &Cbor) -> bool {
    match t {
        FieldType::Option(inner) => matches!(c, Cbor::Null) || spec_cbor_matches(inner, c),
        FieldType::Bool => matches!(c, Cbor::Bool(_)),
        FieldType::I64 => match c {
            Cbor::Integer(n) => {
                let n = i128::from(*n);
                -(1i128 << 63) <= n && n < (1i128 << 63)
            }
            _ => false,
        },
        FieldType::U64 => match c {
            Cbor::Integer(n) => {
                let n = i128::from(*n);
                0 <= n && n < (1i128 << 64)
            }
            _ => false,
        },
        FieldType::F64 => match c {
            Cbor::Float(x) => *x == *x,
            _ => false,
        },
        FieldType::F32 => match c {
            Cbor::Float(x) => {
                let mag = f64::from_bits(x.to_bits() & !(1u64 << 63));
                *x == *x && (mag == f64::INFINITY || mag < f64::from_bits(F32_OVERFLOW_THRESHOLD_BITS))
            }
            _ => false,
        },
        FieldType::Bytes => matches!(c, Cbor::Bytes(_)),
        FieldType::Text => matches!(c, Cbor::Text(_)),
        _ => panic!("C13: spec_cbor_matches is stated for scalar types only"),
    }
}
