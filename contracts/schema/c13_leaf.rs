//! C13.leaf — contracts of `FieldType::validate_inner`, `FieldType::normalize`
//! and `FieldType::extract` at the scalar leaves (rs/anda_db_schema/src/field.rs).
//! Child module of `anda_db_schema::field` (cfg(kani), scratch copy only).
//!
//! One concrete block per cell (declared type T, value variant V), one harness per
//! T (its cells for T and Option<T>): the pair is concrete (rule 1), the payload
//! ranges over the full u64 / i64 / f64 / f32 / bool domain.
//! Every FieldValue / FieldType / Cbor / Result lives in ManuallyDrop (rule 2).
use super::*;
use core::mem::ManuallyDrop;

#[path = "c13_spec.rs"]
mod spec;
use spec::*;

fn is_option(t: &FieldType) -> bool {
    matches!(t, FieldType::Option(_))
}

/// The property's sentences on one (T, v) cell. `before` and `v` are two copies
/// of the same value (same symbolic payload).
fn check_cell(t: &FieldType, before: &FieldValue, v: &mut FieldValue) {
    let member = spec_member(t, before);

    // (1) nothing invalid gets in / what the documentation promises is accepted
    let r = ManuallyDrop::new(t.validate_inner(v));
    let accepted = r.is_ok();
    // (Kani assumes an assertion after checking it, so of two assertions refuted by
    // the same executions only the first is reported: the two specific sentences
    // come first, the general ones after.)
    assert!(!spec_is_nan(before) || !accepted, "OBL:C13.leaf.nan_rejected");
    assert!(
        !matches!(before, FieldValue::Null) || accepted == is_option(t),
        "OBL:C13.leaf.null_only_under_option"
    );
    assert!(!accepted || member, "OBL:C13.leaf.nothing_invalid");
    assert!(!member || accepted, "OBL:C13.leaf.accepts_documented");

    // (2) returned in the declared variant, value unchanged
    t.normalize(v);
    let r2 = ManuallyDrop::new(t.validate_inner(v));
    assert!(!accepted || spec_declared_variant(t, v), "OBL:C13.leaf.declared_variant");
    assert!(!accepted || r2.is_ok(), "OBL:C13.leaf.revalidates");
    assert!(!accepted || spec_same_value(before, v), "OBL:C13.leaf.value_preserved");
    assert!(accepted || spec_unchanged(before, v), "OBL:C13.leaf.rejected_unchanged");
    assert!(accepted || r2.is_err(), "OBL:C13.leaf.rejected_stays_rejected");

    kani::cover!(accepted, "COVER:accepted");
    kani::cover!(!accepted, "COVER:rejected");
}

fn opt(t: FieldType) -> FieldType {
    FieldType::Option(Box::new(t))
}

macro_rules! cell {
    ($t:expr, $v:expr) => {{
        let before = ManuallyDrop::new($v);
        let mut v = ManuallyDrop::new($v);
        check_cell($t, &before, &mut v);
    }};
}

macro_rules! cells {
    ($t:expr, $b:ident, $i:ident, $u:ident, $x:ident, $y:ident) => {{
        cell!($t, FieldValue::Bool($b));
        cell!($t, FieldValue::I64($i));
        cell!($t, FieldValue::U64($u));
        cell!($t, FieldValue::F64($x));
        cell!($t, FieldValue::F32($y));
        cell!($t, FieldValue::Null);
        cell!($t, FieldValue::Text(String::new()));
        cell!($t, FieldValue::Bytes(Vec::new()));
    }};
}

/// One row of the (T, V) table, for T and for Option<T>: the declared type is
/// concrete, the eight value variants are eight concrete blocks each, payloads
/// symbolic over their full domain (16 cells per harness).
macro_rules! leaf_row {
    ($name:ident, $t:expr) => {
        #[kani::proof]
        #[kani::unwind(2)]
        #[kani::stub(alloc::fmt::format, stub_format)]
        #[kani::stub(FieldValue::try_into_cbor, stub_try_into_cbor)]
        #[kani::stub(FieldValue::json_from, stub_json_from)]
        fn $name() {
            let t = ManuallyDrop::new($t);
            let ot = ManuallyDrop::new(opt($t));
            let b: bool = kani::any();
            let i: i64 = kani::any();
            let u: u64 = kani::any();
            let x: f64 = kani::any();
            let y: f32 = kani::any();
            cells!(&t, b, i, u, x, y);
            cells!(&ot, b, i, u, x, y);
            kani::cover!(true, "COVER:reach");
        }
    };
}

leaf_row!(c13_leaf_bool, FieldType::Bool);
leaf_row!(c13_leaf_i64, FieldType::I64);
leaf_row!(c13_leaf_u64, FieldType::U64);
leaf_row!(c13_leaf_f64, FieldType::F64);
leaf_row!(c13_leaf_f32, FieldType::F32);
leaf_row!(c13_leaf_bytes, FieldType::Bytes);
leaf_row!(c13_leaf_text, FieldType::Text);

// ---- extract (FieldType::extract -> FieldValue::{bool,i64,u64,f64,f32,bytes,text}_from) ----

/// `extract(T, c)` on a CBOR scalar: it succeeds exactly on CBOR that matches T
/// (so what was written for a T field is accepted on read), and whatever it
/// returns is a value validation accepts, in the declared variant, denoting what
/// the CBOR scalar denotes.
fn check_extract(t: &FieldType, c_copy: &Cbor, c: Cbor) {
    let matching = spec_cbor_matches(t, c_copy);
    let r = ManuallyDrop::new(t.extract(c));
    let (valid, declared, same) = match &*r {
        Ok(v) => {
            let rv = ManuallyDrop::new(t.validate_inner(v));
            (rv.is_ok(), spec_declared_variant(t, v), spec_extracted(c_copy, v))
        }
        Err(_) => (true, true, true),
    };
    // what comes out first, which CBOR is let in last (see check_cell on the order)
    assert!(valid, "OBL:C13.leaf.extract_validates");
    assert!(declared, "OBL:C13.leaf.extract_declared_variant");
    assert!(same, "OBL:C13.leaf.extract_same_value");
    assert!(r.is_ok() == matching, "OBL:C13.leaf.extract_iff_matching");
    kani::cover!(r.is_ok(), "COVER:extracted");
    kani::cover!(r.is_err(), "COVER:extract_rejected");
}

macro_rules! xcell {
    ($t:expr, $c:expr) => {{
        let c_copy = ManuallyDrop::new($c);
        check_extract($t, &c_copy, $c);
    }};
}

macro_rules! xcells {
    ($t:expr, $b:ident, $int:ident, $x:ident) => {{
        xcell!($t, Cbor::Bool($b));
        xcell!($t, Cbor::Integer($int));
        xcell!($t, Cbor::Float($x));
        xcell!($t, Cbor::Null);
        xcell!($t, Cbor::Text(String::new()));
        xcell!($t, Cbor::Bytes(Vec::new()));
    }};
}

/// One row of the (T, CBOR kind) table, for T and for Option<T>; the CBOR integer
/// ranges over the whole CBOR integer domain -2^64 ..= 2^64-1, the float over all
/// of f64 (12 cells per harness).
macro_rules! extract_row {
    ($name:ident, $t:expr) => {
        #[kani::proof]
        #[kani::unwind(2)]
        #[kani::stub(alloc::fmt::format, stub_format)]
        #[kani::stub(FieldValue::try_into_cbor, stub_try_into_cbor)]
        #[kani::stub(FieldValue::json_from, stub_json_from)]
        fn $name() {
            let t = ManuallyDrop::new($t);
            let ot = ManuallyDrop::new(opt($t));
            let b: bool = kani::any();
            let n: i128 = kani::any();
            let int = cbor2::value::Integer::try_from(n);
            kani::assume(int.is_ok());
            let int = int.unwrap();
            let x: f64 = kani::any();
            xcells!(&t, b, int, x);
            xcells!(&ot, b, int, x);
            kani::cover!(true, "COVER:reach");
        }
    };
}

extract_row!(c13_extract_bool, FieldType::Bool);
extract_row!(c13_extract_i64, FieldType::I64);
extract_row!(c13_extract_u64, FieldType::U64);
extract_row!(c13_extract_f64, FieldType::F64);
extract_row!(c13_extract_f32, FieldType::F32);
extract_row!(c13_extract_bytes, FieldType::Bytes);
extract_row!(c13_extract_text, FieldType::Text);
