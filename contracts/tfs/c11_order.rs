//! C11.order / C11.params — contracts of `BM25Index::compare_scored_docs` and
//! `BM25Params::sanitized` (rs/anda_db_tfs/src/bm25.rs). Child module of `bm25`.
//! Written from the property: "results are ordered by finite, non-negative scores
//! with ties broken by id, so the top-k list is a prefix of the top-(k+1) list and
//! repeated queries agree" — which needs the comparator to be a strict total order
//! on (id, score) pairs with distinct ids, for EVERY f32 bit pattern.
use super::*;
use std::cmp::Ordering as O;

type Ix = BM25Index<TokenizerChain>;

fn cmp(a: &(u64, f32), b: &(u64, f32)) -> O {
    Ix::compare_scored_docs(a, b)
}

fn any_doc() -> (u64, f32) {
    (kani::any(), kani::any())
}

/// Total-order laws over all (u64, f32) triples (loop-free: complete).
#[kani::proof]
#[kani::unwind(2)]
fn c11_order_total() {
    let (a, b, c) = (any_doc(), any_doc(), any_doc());
    let ab = cmp(&a, &b);
    let ba = cmp(&b, &a);
    let bc = cmp(&b, &c);
    let ac = cmp(&a, &c);
    assert!(ab == ba.reverse(), "OBL:C11.order.antisymmetric");
    assert!(!(ab != O::Greater && bc != O::Greater) || ac != O::Greater, "OBL:C11.order.transitive");
    assert!(!(ab == O::Less && bc == O::Less) || ac == O::Less, "OBL:C11.order.transitive");
    // Equal only for the same document (so distinct ids are strictly ordered:
    // sort/select results are unique => top-k is a prefix of top-(k+1)).
    assert!(ab != O::Equal || a.0 == b.0, "OBL:C11.order.equal_only_same_doc");
    assert!(cmp(&a, &a) == O::Equal, "OBL:C11.order.reflexive");
    kani::cover!(ab == O::Less && bc == O::Less, "COVER:chain");
    kani::cover!(a.1.is_nan() && !b.1.is_nan(), "COVER:nan");
    kani::cover!(true, "COVER:reach");
}

/// The order is the one the property names: higher score first, ties by ascending
/// id, unscorable (NaN) documents last.
#[kani::proof]
#[kani::unwind(2)]
fn c11_order_meaning() {
    let (a, b) = (any_doc(), any_doc());
    let ab = cmp(&a, &b);
    if !a.1.is_nan() && !b.1.is_nan() {
        assert!(!(a.1 > b.1) || ab == O::Less, "OBL:C11.order.higher_score_first");
        assert!(!(a.1 < b.1) || ab == O::Greater, "OBL:C11.order.higher_score_first");
        assert!(!(a.1.to_bits() == b.1.to_bits()) || ab == a.0.cmp(&b.0), "OBL:C11.order.ties_by_ascending_id");
    }
    assert!(!(!a.1.is_nan() && b.1.is_nan()) || ab == O::Less, "OBL:C11.order.nan_last");
    assert!(!(a.1.is_nan() && b.1.is_nan()) || ab == a.0.cmp(&b.0), "OBL:C11.order.ties_by_ascending_id");
    kani::cover!(a.1.to_bits() == b.1.to_bits() && a.0 < b.0, "COVER:tie");
    kani::cover!(true, "COVER:reach");
}

pub(super) fn post_params_range(r: &(f32, f32)) -> bool {
    r.0.is_finite() && r.1.is_finite() && 0.0 <= r.0 && r.0 <= BM25Params::MAX_K1 && 0.0 <= r.1 && r.1 <= 1.0
}

/// `sanitized`: for every f32 pair (NaN, +-inf, negative, f32::MAX) the scoring
/// parameters are finite with 0 <= k1 <= MAX_K1 and 0 <= b <= 1 — the
/// precondition under which the tf component stays finite and non-negative.
#[kani::proof_for_contract(BM25Params::sanitized)]
#[kani::unwind(2)]
fn c11_params_contract() {
    let p = BM25Params { k1: kani::any(), b: kani::any() };
    let r = p.sanitized();
    assert!(post_params_range(&r), "OBL:C11.order.params_range");
    kani::cover!(p.k1.is_nan() && p.b > 1.0, "COVER:odd_inputs");
    kani::cover!(true, "COVER:reach");
}
