//! C11.topk — the selection part of `BM25Index::top_k_results`
//! (rs/anda_db_tfs/src/bm25.rs): from `if results.len() > top_k {` through the final
//! `sort_unstable_by`, copied verbatim on every run into an `impl BM25Index` block
//! (so `Self::compare_scored_docs` resolves). The function's parameter is an
//! FxHashMap (hashbrown, out of CBMC's reach); the slice starts after it has been
//! collected into `results`. Added after seed C11b (partition comparing scores only)
//! slipped through.
//!
//! Contract (C11): "results are ordered by … scores with ties broken by id, so the
//! top-k list is a prefix of the top-(k+1) list": the returned list is exactly the
//! first `top_k` entries of the full ranking (score descending, NaN last, ties by
//! ascending id) of the scored documents — for every score bit pattern, ties
//! straddling the cut included.
use super::*;
use core::mem::ManuallyDrop;
use std::cmp::Ordering as O;

impl<T> BM25Index<T>
where
    T: Tokenizer + Clone,
{
    /// Slice: selection + final sort. Free variables: results, top_k.
    fn verif_slice_select(mut results: Vec<(u64, f32)>, top_k: usize) -> Vec<(u64, f32)> {
/*@EXTRACT:select@*/
        results
    }
}

type Ix = BM25Index<TokenizerChain>;

/// Reference ranking: insertion sort by the documented order, written from the
/// property (not by calling compare_scored_docs).
fn before(a: &(u64, f32), b: &(u64, f32)) -> bool {
    match (a.1.is_nan(), b.1.is_nan()) {
        (true, true) => a.0 < b.0,
        (true, false) => false,
        (false, true) => true,
        (false, false) => {
            // total order on the score bits (total_cmp): higher first
            let (x, y) = (a.1.to_bits() as i32, b.1.to_bits() as i32);
            let (x, y) = (x ^ (((x >> 31) as u32) >> 1) as i32, y ^ (((y >> 31) as u32) >> 1) as i32);
            x > y || (x == y && a.0 < b.0)
        }
    }
}

fn rank(v: &mut [(u64, f32)]) {
    let n = v.len();
    let mut i = 1;
    while i < n {
        let mut j = i;
        while j > 0 && before(&v[j], &v[j - 1]) {
            v.swap(j - 1, j);
            j -= 1;
        }
        i += 1;
    }
}

/// N scored documents with distinct ids (map keys) and fully symbolic scores, one
/// CONCRETE top_k per harness (a symbolic cut made the truncation length symbolic:
/// 13 min / 5 GB without verdict).
fn topk_block<const N: usize>(top_k: usize) {
    let mut docs = [(0u64, 0f32); N];
    let mut i = 0;
    while i < N {
        docs[i] = (kani::any(), kani::any());
        let mut j = 0;
        while j < i {
            kani::assume(docs[j].0 != docs[i].0);
            j += 1;
        }
        i += 1;
    }
    let mut input = Vec::with_capacity(N);
    let mut i = 0;
    while i < N {
        input.push(docs[i]);
        i += 1;
    }
    let got = ManuallyDrop::new(Ix::verif_slice_select(input, top_k));
    let mut full = docs;
    rank(&mut full);
    assert!(got.len() == top_k, "OBL:C11.topk.is_a_prefix_of_the_full_ranking");
    let mut i = 0;
    while i < top_k {
        assert!(got[i].0 == full[i].0 && got[i].1.to_bits() == full[i].1.to_bits(), "OBL:C11.topk.is_a_prefix_of_the_full_ranking");
        i += 1;
    }
    kani::cover!(top_k < N && full[top_k - 1].1.to_bits() == full[top_k].1.to_bits(), "COVER:tie_straddles_the_cut");
    kani::cover!(true, "COVER:reach");
}

#[kani::proof]
#[kani::unwind(6)]
fn c11_topk_3_cut1() {
    topk_block::<3>(1);
}

#[kani::proof]
#[kani::unwind(6)]
fn c11_topk_3_cut2() {
    topk_block::<3>(2);
}

#[kani::proof]
#[kani::unwind(7)]
fn c11_topk_4_cut2() {
    topk_block::<4>(2);
}
