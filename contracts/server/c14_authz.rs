//! C14.authz — contract of `auth::authorize` (rs/anda_db_server/src/auth.rs).
//!
//! Child module of `crate::auth` (injected under cfg(kani) into the scratch copy),
//! so the private tuple field of `ApiKeyHash` and `TIMING_DUMMY` are visible
//! unchanged. The postconditions are written from the property statement (C14)
//! and from the documented precedence rules 1-4 of the module, not from the body
//! of `authorize`.
//!
//! `ApiKeyHash::verify` is replaced by an UNINTERPRETED relation `REL[hash][key]`:
//! a table of symbolic booleans fixed at harness start. Harness hashes differ only
//! in their first byte (= hash id, symbolic in 0..HASHES) and presented keys only
//! in their length (= key id), so the table is fully general on the harness
//! domain and every obligation is discharged for EVERY relation — in particular
//! for relations where the admin hash and the bound hash accept the same key,
//! where they are the same hash, where the timing dummy accepts the key, where
//! nothing or everything verifies. `ApiKeyHash::from_key` (only reached through
//! the `TIMING_DUMMY` LazyLock once `verify` is stubbed) returns the fixed hash
//! id DUMMY_ID, which the symbolic admin/bound ids may coincide with.
use super::*;
use core::mem::ManuallyDrop;

const HASHES: usize = 4;
const KEYS: usize = 3;
const DUMMY_ID: u8 = 3;

/// The uninterpreted relation. Written once by `fresh_relation`, read by the stub.
static mut REL: [[bool; KEYS]; HASHES] = [[false; KEYS]; HASHES];

fn fresh_relation() {
    let t: [[bool; KEYS]; HASHES] = kani::any();
    unsafe {
        REL = t;
    }
}

fn rel(hash_id: u8, key_id: usize) -> bool {
    unsafe { REL[hash_id as usize][key_id] }
}

/// Stub of `ApiKeyHash::verify`: looks the pair up in the relation.
pub(super) fn stub_verify(this: &ApiKeyHash, presented: &str) -> bool {
    rel(this.0[0], presented.len())
}

/// Stub of `ApiKeyHash::from_key` (the real one is SHA3-256; cryptographic, trusted).
pub(super) fn stub_from_key(_key: &str) -> ApiKeyHash {
    ApiKeyHash([DUMMY_ID; 32])
}

fn hash_with_id(id: u8) -> ApiKeyHash {
    let mut b = [0u8; 32];
    b[0] = id;
    ApiKeyHash(b)
}

fn any_hash_id() -> u8 {
    let id: u8 = kani::any();
    kani::assume((id as usize) < HASHES);
    id
}

/// The four shapes of the presented credential: absent/malformed header, and
/// three distinct tokens (key id = length).
const PRESENTED: [Option<&str>; 4] = [None, Some(""), Some("a"), Some("ab")];

type Outcome = ManuallyDrop<Result<Principal, ApiError>>;

fn is_admin(r: &Outcome) -> bool {
    matches!(&**r, Ok(Principal::Admin))
}

fn is_database(r: &Outcome) -> bool {
    matches!(&**r, Ok(Principal::Database))
}

/// "presented key verifies against hash `h`" — None never verifies.
fn verifies(h: Option<u8>, presented: Option<&str>) -> bool {
    match (h, presented) {
        (Some(h), Some(k)) => rel(h, k.len()),
        _ => false,
    }
}

/// Rules 1+2: Admin iff no admin key is configured or the presented key verifies
/// against the admin hash.
fn spec_admin(admin: Option<u8>, presented: Option<&str>) -> bool {
    admin.is_none() || verifies(admin, presented)
}

/// Rule 3: Database iff not Admin, the request addresses a database, and the
/// presented key verifies against the hash bound to THAT database.
fn spec_database(admin: Option<u8>, bound: Option<u8>, root: bool, presented: Option<&str>) -> bool {
    !spec_admin(admin, presented) && !root && verifies(bound, presented)
}

/// What a client can observe of two outcomes is the same: same principal, or
/// rejections with equal status, code and message.
fn same_outcome(x: &Outcome, y: &Outcome) -> bool {
    match (&**x, &**y) {
        (Ok(p), Ok(q)) => p == q,
        (Err(e), Err(f)) => e.status == f.status && e.code == f.code && e.message == f.message,
        _ => false,
    }
}

/// Rule 4: the one rejection. 401 / "unauthorized"; the message is whatever the
/// reference rejection (no credential at the root scope) carries — the property
/// fixes that every rejection is identical, not its wording.
fn is_the_rejection(r: &Outcome, reference: &Outcome) -> bool {
    match (&**r, &**reference) {
        (Err(e), Err(f)) => {
            e.status == axum::http::StatusCode::UNAUTHORIZED
                && e.status.as_u16() == 401
                && e.code == "unauthorized"
                && e.status == f.status
                && e.code == f.code
                && e.message == f.message
        }
        _ => false,
    }
}

fn any_db_name(buf: &mut [u8; 2]) -> &str {
    let b: [u8; 2] = kani::any();
    kani::assume(b[0] < 128 && b[1] < 128);
    *buf = b;
    // ASCII bytes are valid UTF-8.
    unsafe { core::str::from_utf8_unchecked(&buf[..]) }
}

fn call(
    admin: Option<&ApiKeyHash>,
    bound: Option<&ApiKeyHash>,
    scope: Scope<'_>,
    presented: Option<&str>,
) -> Outcome {
    ManuallyDrop::new(authorize(admin, bound, scope, presented))
}

/// Complete decision table. Structure (presence of admin / bound, scope variant,
/// presented shape) is enumerated concretely: 2 x 2 x 2 x 4 = 32 calls (split over
/// harnesses by admin presence and scope); the hash ids, the database name and
/// the relation are symbolic.
fn decision_table(with_admin: bool, scope_lo: usize, scope_hi: usize) {
    fresh_relation();
    LazyLock::force(&TIMING_DUMMY);
    let a = any_hash_id();
    let b = any_hash_id();
    let ha = hash_with_id(a);
    let hb = hash_with_id(b);
    let mut name_buf = [0u8; 2];
    let name = any_db_name(&mut name_buf);

    let admin_id = if with_admin { Some(a) } else { None };
    let admin = if with_admin { Some(&ha) } else { None };
    // Reference rejection: an admin key is configured, nothing presented, root scope.
    let reference = call(Some(&ha), None, Scope::Root, None);
    assert!(reference.is_err(), "OBL:C14.authz.admin_iff");

    let mut bi = 0;
    while bi < 2 {
        let bound_id = if bi == 1 { Some(b) } else { None };
        let bound = if bi == 1 { Some(&hb) } else { None };
        let mut si = scope_lo;
        while si < scope_hi {
            let root = si == 0;
            let scope = if root { Scope::Root } else { Scope::Database(name) };
            let mut ki = 0;
            while ki < 4 {
                let presented = PRESENTED[ki];
                let r = call(admin, bound, scope, presented);
                let want_admin = spec_admin(admin_id, presented);
                let want_db = spec_database(admin_id, bound_id, root, presented);
                // named first: the property's own sentence; it is also a consequence of database_iff
                assert!(!(root && is_database(&r)), "OBL:C14.authz.database_never_root");
                assert!(is_admin(&r) == want_admin, "OBL:C14.authz.admin_iff");
                assert!(is_database(&r) == want_db, "OBL:C14.authz.database_iff");
                assert!(
                    r.is_ok() || is_the_rejection(&r, &reference),
                    "OBL:C14.authz.rejection_fixed"
                );
                kani::cover!(is_admin(&r), "COVER:admin");
                kani::cover!(is_database(&r), "COVER:database");
                kani::cover!(r.is_err() && !root, "COVER:rejected_database_scope");
                kani::cover!(r.is_err() && root && verifies(bound_id, presented), "COVER:db_key_rejected_at_root");
                ki += 1;
            }
            si += 1;
        }
        bi += 1;
    }
    kani::cover!(true, "COVER:reach");
}

/// Admin key configured (the authenticated instance), root scope `POST /`.
#[kani::proof]
#[kani::unwind(34)]
#[kani::stub(super::ApiKeyHash::verify, stub_verify)]
#[kani::stub(super::ApiKeyHash::from_key, stub_from_key)]
fn c14_authz_table_admin_root() {
    decision_table(true, 0, 1);
}

/// Admin key configured, database scope `POST /{db_name}`.
#[kani::proof]
#[kani::unwind(34)]
#[kani::stub(super::ApiKeyHash::verify, stub_verify)]
#[kani::stub(super::ApiKeyHash::from_key, stub_from_key)]
fn c14_authz_table_admin_database() {
    decision_table(true, 1, 2);
}

/// No admin key configured (rule 1: the unauthenticated instance), both scopes.
#[kani::proof]
#[kani::unwind(34)]
#[kani::stub(super::ApiKeyHash::verify, stub_verify)]
#[kani::stub(super::ApiKeyHash::from_key, stub_from_key)]
fn c14_authz_table_no_admin() {
    decision_table(false, 0, 2);
}

/// Uniform rejection, relational over two calls that differ only in the binding
/// of the addressed database: bound to a key the caller does not hold versus
/// unbound / nonexistent (both reach `authorize` as `bound = None`, and the
/// database name is symbolic and different in the two calls). The caller must
/// observe the same outcome.
#[kani::proof]
#[kani::unwind(34)]
#[kani::stub(super::ApiKeyHash::verify, stub_verify)]
#[kani::stub(super::ApiKeyHash::from_key, stub_from_key)]
fn c14_authz_uniform_rejection() {
    fresh_relation();
    LazyLock::force(&TIMING_DUMMY);
    let a = any_hash_id();
    let b = any_hash_id();
    let ha = hash_with_id(a);
    let hb = hash_with_id(b);
    let mut buf1 = [0u8; 2];
    let mut buf2 = [0u8; 2];
    let name_bound = any_db_name(&mut buf1);
    let name_other = any_db_name(&mut buf2);

    let mut ki = 0;
    while ki < 4 {
        let presented = PRESENTED[ki];
        let with_binding = call(Some(&ha), Some(&hb), Scope::Database(name_bound), presented);
        let without = call(Some(&ha), None, Scope::Database(name_other), presented);
        // "bound to another key" is indistinguishable from "unbound / does not exist";
        // and whenever the bound database rejects, the unbound one rejects identically
        if !verifies(Some(b), presented) || with_binding.is_err() {
            assert!(same_outcome(&with_binding, &without), "OBL:C14.authz.uniform_rejection");
            kani::cover!(with_binding.is_err() && presented.is_some(), "COVER:wrong_key_vs_unbound");
            kani::cover!(is_admin(&with_binding), "COVER:admin_either_way");
        }
        ki += 1;
    }
    kani::cover!(true, "COVER:reach");
}

/// At the root scope the binding must not matter at all, whatever it verifies:
/// `bound` is never consulted for `Scope::Root`.
#[kani::proof]
#[kani::unwind(34)]
#[kani::stub(super::ApiKeyHash::verify, stub_verify)]
#[kani::stub(super::ApiKeyHash::from_key, stub_from_key)]
fn c14_authz_root_ignores_binding() {
    fresh_relation();
    LazyLock::force(&TIMING_DUMMY);
    let a = any_hash_id();
    let b = any_hash_id();
    let ha = hash_with_id(a);
    let hb = hash_with_id(b);

    let mut ki = 0;
    while ki < 4 {
        let presented = PRESENTED[ki];
        let with_binding = call(Some(&ha), Some(&hb), Scope::Root, presented);
        let without = call(Some(&ha), None, Scope::Root, presented);
        assert!(same_outcome(&with_binding, &without), "OBL:C14.authz.root_ignores_binding");
        kani::cover!(verifies(Some(b), presented) && with_binding.is_err(), "COVER:db_key_rejected_at_root");
        ki += 1;
    }
    kani::cover!(true, "COVER:reach");
}
