//! C14.cteq — `constant_time_eq` (rs/anda_db_server/src/api/mod.rs), the comparison
//! `ApiKeyHash::verify` rests on (C14.authz replaces `verify` by an uninterpreted
//! relation; this unit pins the one non-cryptographic step of the real `verify`:
//! the presented key's hash is accepted iff it EQUALS the stored hash, byte for
//! byte). Complete for the only length the call sites use (32-byte SHA3-256
//! digests) and for unequal lengths up to 32.
use super::*;

pub(super) fn post_iff_equal(a: &[u8], b: &[u8], r: &bool) -> bool {
    *r == (a == b)
}

#[kani::proof]
#[kani::unwind(34)]
fn c14_cteq_digests() {
    let a: [u8; 32] = kani::any();
    let b: [u8; 32] = kani::any();
    let r = constant_time_eq(&a, &b);
    let mut same = true;
    let mut i = 0;
    while i < 32 {
        if a[i] != b[i] {
            same = false;
        }
        i += 1;
    }
    assert!(r == same, "OBL:C14.cteq.iff_equal");
    kani::cover!(r, "COVER:equal");
    kani::cover!(!r, "COVER:different");
    kani::cover!(true, "COVER:reach");
}

#[kani::proof]
#[kani::unwind(34)]
fn c14_cteq_lengths() {
    let a: [u8; 32] = kani::any();
    let b: [u8; 32] = kani::any();
    let n: usize = kani::any();
    let m: usize = kani::any();
    kani::assume(n <= 32 && m <= 32 && n != m);
    assert!(!constant_time_eq(&a[..n], &b[..m]), "OBL:C14.cteq.length_mismatch_is_unequal");
    kani::cover!(true, "COVER:reach");
}
