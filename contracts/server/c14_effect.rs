//! C14.effect — contract of `RootMethod::parse` and `DbMethod::parse`
//! (rs/anda_db_server/src/api/mod.rs): the single table method name ->
//! (handler selector, side-effect class).
//!
//! Child module of `crate::api` (cfg(kani), scratch copy only), so the private
//! enums `RootMethod`, `DbMethod`, `MethodEffect` are visible unchanged.
//!
//! The frozen tables below are written from the DOCUMENTED method list (crate
//! README, "Root scope" / "Database scope" tables: 8 + 31 names) and from the
//! property's own rule — a method may be treated as cancellable `Read` only if
//! its documented semantics is a pure query: `info`, `*.list`, `*.metadata`,
//! `*.stats`, `*.get_extension`, `doc.get*`, `doc.exists`, `doc.count`,
//! `doc.search*`, `doc.query*`. They are NOT copied from the code's
//! classification. Everything that creates, opens/registers, closes, flushes,
//! toggles, saves, removes, adds, updates or deletes is not a pure query.
//!
//! `pure_root` / `pure_db` are exhaustive matches without a wildcard: a new enum
//! variant makes this module fail to compile, i.e. the unit becomes UNDECIDED
//! ("table out of date"), never silently passing and never a violation.
use super::*;

const ROOT_TABLE: [(&str, RootMethod); 8] = [
    ("info", RootMethod::Info),
    ("db.list", RootMethod::DbList),
    ("db.create", RootMethod::DbCreate),
    ("db.open", RootMethod::DbOpen),
    ("db.connect", RootMethod::DbConnect),
    ("db.close", RootMethod::DbClose),
    ("db.set_api_key", RootMethod::DbSetApiKey),
    ("db.remove_api_key", RootMethod::DbRemoveApiKey),
];

const DB_TABLE: [(&str, DbMethod); 31] = [
    ("info", DbMethod::Info),
    ("db.metadata", DbMethod::DbMetadata),
    ("db.stats", DbMethod::DbStats),
    ("db.flush", DbMethod::DbFlush),
    ("db.set_read_only", DbMethod::DbSetReadOnly),
    ("db.get_extension", DbMethod::DbGetExtension),
    ("db.save_extension", DbMethod::DbSaveExtension),
    ("db.remove_extension", DbMethod::DbRemoveExtension),
    ("collection.list", DbMethod::CollectionList),
    ("collection.create", DbMethod::CollectionCreate),
    ("collection.ensure", DbMethod::CollectionEnsure),
    ("collection.metadata", DbMethod::CollectionMetadata),
    ("collection.stats", DbMethod::CollectionStats),
    ("collection.delete", DbMethod::CollectionDelete),
    ("collection.flush", DbMethod::CollectionFlush),
    ("collection.set_read_only", DbMethod::CollectionSetReadOnly),
    ("collection.get_extension", DbMethod::CollectionGetExtension),
    ("collection.save_extension", DbMethod::CollectionSaveExtension),
    ("collection.remove_extension", DbMethod::CollectionRemoveExtension),
    ("doc.add", DbMethod::DocAdd),
    ("doc.add_many", DbMethod::DocAddMany),
    ("doc.get", DbMethod::DocGet),
    ("doc.get_many", DbMethod::DocGetMany),
    ("doc.update", DbMethod::DocUpdate),
    ("doc.remove", DbMethod::DocRemove),
    ("doc.exists", DbMethod::DocExists),
    ("doc.count", DbMethod::DocCount),
    ("doc.search", DbMethod::DocSearch),
    ("doc.search_ids", DbMethod::DocSearchIds),
    ("doc.query_ids", DbMethod::DocQueryIds),
    ("doc.query_last_ids", DbMethod::DocQueryLastIds),
];

/// Is the documented semantics of the root method a pure query?
fn pure_root(m: RootMethod) -> bool {
    match m {
        RootMethod::Info => true,            // server name, version, open databases
        RootMethod::DbList => true,          // open database names
        RootMethod::DbCreate => false,       // creates a database
        RootMethod::DbOpen => false,         // registers a database in the server registry
        RootMethod::DbConnect => false,      // opens or creates
        RootMethod::DbClose => false,        // flushes, closes, unregisters
        RootMethod::DbSetApiKey => false,    // binds / rotates a key (persisted)
        RootMethod::DbRemoveApiKey => false, // revokes a key (persisted)
    }
}

/// Is the documented semantics of the database-scope method a pure query?
fn pure_db(m: DbMethod) -> bool {
    match m {
        DbMethod::Info => true,
        DbMethod::DbMetadata => true,
        DbMethod::DbStats => true,
        DbMethod::DbFlush => false,
        DbMethod::DbSetReadOnly => false,
        DbMethod::DbGetExtension => true,
        DbMethod::DbSaveExtension => false,
        DbMethod::DbRemoveExtension => false,
        DbMethod::CollectionList => true,
        DbMethod::CollectionCreate => false,
        DbMethod::CollectionEnsure => false,
        DbMethod::CollectionMetadata => true,
        DbMethod::CollectionStats => true,
        DbMethod::CollectionDelete => false,
        DbMethod::CollectionFlush => false,
        DbMethod::CollectionSetReadOnly => false,
        DbMethod::CollectionGetExtension => true,
        DbMethod::CollectionSaveExtension => false,
        DbMethod::CollectionRemoveExtension => false,
        DbMethod::DocAdd => false,
        DbMethod::DocAddMany => false,
        DbMethod::DocGet => true,
        DbMethod::DocGetMany => true,
        DbMethod::DocUpdate => false,
        DbMethod::DocRemove => false,
        DbMethod::DocExists => true,
        DbMethod::DocCount => true,
        DbMethod::DocSearch => true,
        DbMethod::DocSearchIds => true,
        DbMethod::DocQueryIds => true,
        DbMethod::DocQueryLastIds => true,
    }
}

/// The 8 + 31 documented names, concretely: each resolves, to the selector the
/// documentation names, and is `Read` only if the frozen table says pure query.
/// Scope separation: a server-level method name (everything of the root table but
/// the shared `info`) does not resolve in the database scope, where a
/// per-database key is accepted — and vice versa.
#[kani::proof]
#[kani::unwind(34)]
fn c14_effect_documented_names() {
    let mut i = 0;
    while i < ROOT_TABLE.len() {
        let (name, want) = ROOT_TABLE[i];
        let r = RootMethod::parse(name);
        assert!(r.is_some(), "OBL:C14.effect.documented_resolves");
        if let Some((sel, eff)) = r {
            assert!(eff != MethodEffect::Read || pure_root(sel), "OBL:C14.effect.table");
            assert!(sel == want, "OBL:C14.effect.selector");
            kani::cover!(eff == MethodEffect::Read, "COVER:root_read");
            kani::cover!(eff == MethodEffect::Mutating, "COVER:root_mutating");
        }
        if i != 0 {
            assert!(DbMethod::parse(name).is_none(), "OBL:C14.effect.scope_separation");
        }
        i += 1;
    }
    let mut i = 0;
    while i < DB_TABLE.len() {
        let (name, want) = DB_TABLE[i];
        let r = DbMethod::parse(name);
        assert!(r.is_some(), "OBL:C14.effect.documented_resolves");
        if let Some((sel, eff)) = r {
            assert!(eff != MethodEffect::Read || pure_db(sel), "OBL:C14.effect.table");
            assert!(sel == want, "OBL:C14.effect.selector");
            kani::cover!(eff == MethodEffect::Read, "COVER:db_read");
            kani::cover!(eff == MethodEffect::Mutating, "COVER:db_mutating");
        }
        if i != 0 {
            assert!(RootMethod::parse(name).is_none(), "OBL:C14.effect.scope_separation");
        }
        i += 1;
    }
    kani::cover!(true, "COVER:reach");
}

/// Longest documented name is 27 bytes ("collection.remove_extension"); one more
/// byte so that "documented name + one extra byte" is in the domain too.
const MAX_NAME: usize = 28;

fn any_ascii_buffer() -> [u8; MAX_NAME] {
    let bytes: [u8; MAX_NAME] = kani::any();
    let mut i = 0;
    while i < MAX_NAME {
        kani::assume(bytes[i] < 128);
        i += 1;
    }
    bytes
}

/// Database scope. EVERY ASCII name of `lo..=hi` bytes (the length is enumerated
/// concretely, the bytes are symbolic): it resolves iff it is one of the 31
/// documented names (no alias, no undocumented method, no server-level method),
/// then to the documented selector, and `Read` only for a pure query.
fn db_any_name(lo: usize, hi: usize) {
    let bytes = any_ascii_buffer();
    let mut resolved_some = false;
    let mut unknown_some = false;
    let mut len = lo;
    while len <= hi {
        // ASCII bytes are valid UTF-8.
        let s = unsafe { core::str::from_utf8_unchecked(&bytes[..len]) };
        let r = DbMethod::parse(s);
        let mut documented: Option<DbMethod> = None;
        let mut i = 0;
        while i < DB_TABLE.len() {
            if s == DB_TABLE[i].0 {
                documented = Some(DB_TABLE[i].1);
            }
            i += 1;
        }
        match r {
            // (documented ==> resolves is discharged completely by c14_effect_documented_names)
            None => unknown_some = true,
            Some((sel, eff)) => {
                assert!(eff != MethodEffect::Read || pure_db(sel), "OBL:C14.effect.read_implies_pure");
                // resolves ==> `s` is the documented name of the selector it resolves to
                assert!(documented == Some(sel), "OBL:C14.effect.unknown_is_none");
                resolved_some = true;
            }
        }
        len += 1;
    }
    kani::cover!(resolved_some, "COVER:some_name_resolves");
    kani::cover!(unknown_some && !resolved_some, "COVER:some_name_unknown");
    kani::cover!(true, "COVER:reach");
}

/// Root scope, same statement over the 8 documented root names.
fn root_any_name(lo: usize, hi: usize) {
    let bytes = any_ascii_buffer();
    let mut resolved_some = false;
    let mut unknown_some = false;
    let mut len = lo;
    while len <= hi {
        let s = unsafe { core::str::from_utf8_unchecked(&bytes[..len]) };
        let r = RootMethod::parse(s);
        let mut documented: Option<RootMethod> = None;
        let mut i = 0;
        while i < ROOT_TABLE.len() {
            if s == ROOT_TABLE[i].0 {
                documented = Some(ROOT_TABLE[i].1);
            }
            i += 1;
        }
        match r {
            // (documented ==> resolves is discharged completely by c14_effect_documented_names)
            None => unknown_some = true,
            Some((sel, eff)) => {
                assert!(eff != MethodEffect::Read || pure_root(sel), "OBL:C14.effect.read_implies_pure");
                // resolves ==> `s` is the documented name of the selector it resolves to
                assert!(documented == Some(sel), "OBL:C14.effect.unknown_is_none");
                resolved_some = true;
            }
        }
        len += 1;
    }
    kani::cover!(resolved_some, "COVER:some_name_resolves");
    kani::cover!(unknown_some && !resolved_some, "COVER:some_name_unknown");
    kani::cover!(true, "COVER:reach");
}

/// Database scope, every ASCII name of 0..=14 bytes.
#[kani::proof]
#[kani::unwind(34)]
fn c14_effect_db_any_name_short() {
    db_any_name(0, 14);
}

/// Database scope, every ASCII name of 15..=28 bytes (longest documented name: 27).
#[kani::proof]
#[kani::unwind(34)]
fn c14_effect_db_any_name_long() {
    db_any_name(15, MAX_NAME);
}

/// Root scope, every ASCII name of 0..=28 bytes (longest documented name: 17).
#[kani::proof]
#[kani::unwind(34)]
fn c14_effect_root_any_name() {
    root_any_name(0, MAX_NAME);
}
