//! C09.readverify — "every read through the encrypted store either returns exactly
//! the originally written bytes or fails": a read may act on a metadata document
//! (fetch the payload generation it names, use its nonce, tags, chunk size, AAD
//! version) only after `verify_metadata` accepted THAT VERY document — including
//! the document re-resolved after a stale-pointer retry. Added after seed C09a
//! (`get_ranges` hoisting the verification out of its retry loop) slipped through.
//!
//! `EncryptedStore::get_ranges` is copied VERBATIM — signature and body, on every
//! run — into `impl VerifEnc`, a view struct whose helper methods are stand-ins
//! with ASSUMED contracts; `.await`s stay and are driven by a poll loop of our own.
//! Every metadata document handed out by the stand-in `get_meta` carries a serial
//! number (ghost) which `payload_path` copies into the path it builds;
//! `verify_metadata` records the serial it accepted; every consumer checks the
//! serial it is handed against it.
//!
//! Stand-ins: `Path`, `Error`, `Bytes`, `Arc`, `Metadata`, `Nonce`, `Tag`,
//! `inner.{get_meta, refresh_meta, payload_path}`, `inner.store.get_range`,
//! `verify_metadata` (its decision table is under contract in C09.down / C09.seal),
//! `validate_ranges`, `read_chunk_size` (C07.chunk), `chunk_aad_for_meta`
//! (C09.caad), `cipher.decrypt_inout_detached` (AES-GCM: trusted). `format!` is
//! stubbed. The real `derive_gcm_nonce` is called as is.
//! Dropped: the bytes themselves (span arithmetic and trimming are C09.span /
//! C09.trim), concurrency.
use super::*;
use core::cell::Cell;
use core::future::Future;
use core::mem::ManuallyDrop;
use core::task::{Context, Poll, Waker};

fn block_on<T>(fut: impl Future<Output = T>) -> T {
    let mut fut = core::pin::pin!(fut);
    let mut cx = Context::from_waker(Waker::noop());
    loop {
        if let Poll::Ready(v) = fut.as_mut().poll(&mut cx) {
            return v;
        }
    }
}

// ---- shadows of the names the verbatim body mentions ------------------------------

/// A path; for a payload path `serial` is the serial of the metadata document the
/// path was built from (ghost).
#[derive(Clone, Copy)]
struct Path {
    serial: u8,
}
impl core::fmt::Display for Path {
    fn fmt(&self, _f: &mut core::fmt::Formatter<'_>) -> core::fmt::Result {
        Ok(())
    }
}
struct VerifStr;
impl Path {
    fn to_string(&self) -> VerifStr {
        VerifStr
    }
}
struct VerifSource;
impl From<&'static str> for VerifSource {
    fn from(_: &'static str) -> Self {
        VerifSource
    }
}
impl From<String> for VerifSource {
    fn from(s: String) -> Self {
        core::mem::forget(s);
        VerifSource
    }
}
#[allow(dead_code)]
enum Error {
    NotFound { path: VerifStr, source: VerifSource },
    Generic { store: &'static str, source: VerifSource },
}
type Result<T, E = Error> = core::result::Result<T, E>;

fn verif_fmt(_args: core::fmt::Arguments<'_>) -> String {
    String::new()
}

#[derive(Clone)]
struct Arc<T>(T);
impl<T> core::ops::Deref for Arc<T> {
    type Target = T;
    fn deref(&self) -> &T {
        &self.0
    }
}

/// At most CAP bytes, on the stack.
const CAP: usize = 4;
#[derive(Clone)]
struct Bytes {
    len: usize,
}
impl Bytes {
    fn new() -> Self {
        Bytes { len: 0 }
    }
    fn len(&self) -> usize {
        self.len
    }
    fn slice(&self, r: core::ops::Range<usize>) -> Bytes {
        assert!(r.start <= r.end && r.end <= self.len);
        Bytes { len: r.end - r.start }
    }
    fn copy_from_slice(s: &VerifSlice) -> Bytes {
        Bytes { len: s.0 }
    }
}
struct VerifSlice(usize);
impl core::ops::Index<core::ops::Range<usize>> for Bytes {
    type Output = VerifSlice;
    fn index(&self, r: core::ops::Range<usize>) -> &VerifSlice {
        assert!(r.start <= r.end && r.end <= self.len);
        // a length-only view: leak a tiny box (never more than one per range)
        Box::leak(Box::new(VerifSlice(r.end - r.start)))
    }
}
impl From<Vec<u8>> for Bytes {
    fn from(v: Vec<u8>) -> Self {
        let len = v.len();
        core::mem::forget(v);
        Bytes { len }
    }
}
impl From<Bytes> for Vec<u8> {
    fn from(b: Bytes) -> Vec<u8> {
        assert!(b.len <= CAP);
        // (loop-free, so that the harness can run with the smallest unwind bound
        // the retry loop needs)
        let mut v = Vec::from([0u8; CAP]);
        v.truncate(b.len);
        v
    }
}

struct VerifGen(u8);
impl core::ops::Deref for VerifGen {
    type Target = u8;
    fn deref(&self) -> &u8 {
        &self.0
    }
}
#[derive(Clone, Copy)]
struct VerifTag([u8; 16]);
impl core::ops::Deref for VerifTag {
    type Target = [u8; 16];
    fn deref(&self) -> &[u8; 16] {
        &self.0
    }
}
struct Metadata {
    /// ghost: which read of the metadata object this document came from
    serial: u8,
    size: u64,
    generation: Option<VerifGen>,
    aes_nonce: [u8; 12],
    aes_tags: [VerifTag; 1],
}
struct Nonce;
impl From<[u8; 12]> for Nonce {
    fn from(_: [u8; 12]) -> Self {
        Nonce
    }
}
struct Tag;
impl From<[u8; 16]> for Tag {
    fn from(_: [u8; 16]) -> Self {
        Tag
    }
}
struct VerifAad;
struct VerifInOut;
impl<'a> From<&'a mut [u8]> for VerifInOut {
    fn from(_: &'a mut [u8]) -> Self {
        VerifInOut
    }
}
#[derive(Debug)]
struct VerifAeadError;

// ---- ghost state -------------------------------------------------------------------

#[derive(Default)]
struct Ghost {
    /// serial of the last document `verify_metadata` accepted (0 = none yet)
    verified: Cell<u8>,
    reads: Cell<u8>,
    /// every consumer was handed a verified document so far
    fetches: Cell<u8>,
    fetch_unverified: Cell<bool>,
    decrypts: Cell<u8>,
    decrypt_unverified: Cell<bool>,
    geometry_unverified: Cell<bool>,
}

#[derive(Clone, Copy)]
struct Knobs {
    /// outcome of the payload fetch on the first / second attempt:
    /// 0 Ok(full span), 1 NotFound, 2 other error, 3 Ok(short)
    fetch: [u8; 2],
    /// does verify_metadata accept the first / second document
    verify_ok: [bool; 2],
    decrypt_ok: bool,
    size: u64,
}

struct VerifCipher<'g> {
    g: &'g Ghost,
    k: Knobs,
}
impl VerifCipher<'_> {
    fn decrypt_inout_detached(&self, _n: &Nonce, _aad: &VerifAad, _buf: VerifInOut, _tag: &Tag) -> core::result::Result<(), VerifAeadError> {
        self.g.decrypts.set(self.g.decrypts.get() + 1);
        if self.k.decrypt_ok { Ok(()) } else { Err(VerifAeadError) }
    }
}
struct VerifBackend<'g> {
    g: &'g Ghost,
    k: Knobs,
}
impl VerifBackend<'_> {
    async fn get_range(&self, path: &Path, range: core::ops::Range<u64>) -> Result<Bytes> {
        let n = self.g.fetches.get();
        self.g.fetches.set(n + 1);
        if path.serial == 0 || path.serial != self.g.verified.get() {
            self.g.fetch_unverified.set(true);
        }
        match self.k.fetch[if n == 0 { 0 } else { 1 }] {
            0 => Ok(Bytes { len: (range.end - range.start) as usize }),
            1 => Err(Error::NotFound { path: VerifStr, source: "verif".into() }),
            2 => Err(Error::Generic { store: "verif", source: "verif".into() }),
            _ => Ok(Bytes { len: 0 }),
        }
    }
}
struct VerifSidecar<'g> {
    g: &'g Ghost,
    k: Knobs,
    store: VerifBackend<'g>,
}
impl VerifSidecar<'_> {
    fn document(&self) -> Arc<Metadata> {
        let serial = self.g.reads.get() + 1;
        self.g.reads.set(serial);
        Arc(Metadata {
            serial,
            size: self.k.size,
            generation: Some(VerifGen(serial)),
            aes_nonce: [0; 12],
            aes_tags: [VerifTag([0; 16])],
        })
    }
    /// ASSUMED: hands out the current metadata document (each call a fresh read here,
    /// so a re-resolved document is a DIFFERENT, not yet verified one).
    async fn get_meta(&self, _location: &Path) -> Result<Arc<Metadata>> {
        Ok(self.document())
    }
    async fn refresh_meta(&self, _location: &Path) -> Result<Arc<Metadata>> {
        Ok(self.document())
    }
    fn payload_path(&self, _location: &Path, generation: Option<&u8>) -> Path {
        Path { serial: generation.copied().unwrap_or(0) }
    }
}

struct VerifEnc<'g> {
    g: &'g Ghost,
    k: Knobs,
    inner: VerifSidecar<'g>,
    cipher: VerifCipher<'g>,
}

fn validate_ranges(_store: &'static str, ranges: &[Range<u64>], len: u64) -> Result<()> {
    // ASSUMED (its three checks are plain comparisons): every range is non-empty and
    // inside the object
    if ranges[0].start >= len || ranges[0].end <= ranges[0].start || ranges[0].end > len {
        return Err(Error::Generic { store: "verif", source: "verif".into() });
    }
    Ok(())
}

fn chunk_aad_for_meta(meta: &Metadata, _chunk_size: u64, _idx: u64) -> Result<VerifAad> {
    // SAFETY: one thread (Kani is sequential); by-value accesses only
    unsafe {
        if meta.serial == 0 || meta.serial != VERIF_VERIFIED {
            VERIF_AAD_UNVERIFIED = true;
        }
    }
    Ok(VerifAad)
}

// `chunk_aad_for_meta` is a free function in the real code, so its stand-in cannot
// reach the harness's ghost through `self`: last verified serial / saw an unverified one
static mut VERIF_VERIFIED: u8 = 0;
static mut VERIF_AAD_UNVERIFIED: bool = false;

#[allow(dead_code, unused_variables)]
impl VerifEnc<'_> {
    fn verify_metadata(&self, _location: &Path, meta: &Metadata) -> Result<()> {
        let idx = if meta.serial <= 1 { 0 } else { 1 };
        if self.k.verify_ok[idx] {
            self.g.verified.set(meta.serial);
            unsafe {
                VERIF_VERIFIED = meta.serial;
            }
            Ok(())
        } else {
            Err(Error::Generic { store: "verif", source: "verif".into() })
        }
    }
    fn read_chunk_size(&self, meta: &Metadata) -> u64 {
        if meta.serial == 0 || meta.serial != self.g.verified.get() {
            self.g.geometry_unverified.set(true);
        }
        CAP as u64
    }

/*@EXTRACT:get_ranges@*/
}

/// One harness per outcome pattern of the (at most two) payload fetches; the two
/// verification outcomes and the decryption outcome are symbolic. (All five symbolic
/// at once ran CBMC out of memory after 390 s.)
fn readverify_case(fetch: [u8; 2]) {
    let g = Ghost::default();
    let k = Knobs {
        fetch,
        verify_ok: [kani::any(), kani::any()],
        decrypt_ok: kani::any(),
        // (geometry concrete: a 4-byte object = one chunk; symbolic size / range did
        // not finish in 15 min — the span arithmetic has its own units C09.span / C09.trim)
        size: CAP as u64,
    };
    let enc = ManuallyDrop::new(VerifEnc {
        g: &g,
        k,
        inner: VerifSidecar { g: &g, k, store: VerifBackend { g: &g, k } },
        cipher: VerifCipher { g: &g, k },
    });
    let ranges = [1u64..3u64];
    let r = ManuallyDrop::new(block_on(enc.get_ranges(&Path { serial: 0 }, &ranges)));
    // the payload generation that is fetched is the one named by a document that
    // verify_metadata accepted — on the retry too
    assert!(!g.fetch_unverified.get(), "OBL:C09.readverify.payload_fetched_under_a_verified_document");
    // chunk geometry and per-chunk AAD come from a verified document
    assert!(!g.geometry_unverified.get(), "OBL:C09.readverify.geometry_from_a_verified_document");
    assert!(!unsafe { VERIF_AAD_UNVERIFIED }, "OBL:C09.readverify.decryption_under_a_verified_document");
    // bytes are returned only if every chunk authenticated and no document was refused
    if r.is_ok() {
        assert!(k.decrypt_ok && g.decrypts.get() >= 1, "OBL:C09.readverify.ok_only_after_authenticated_decryption");
    }
    kani::cover!(r.is_ok(), "COVER:served");
    kani::cover!(r.is_err(), "COVER:refused");
    kani::cover!(true, "COVER:reach");
}

macro_rules! readverify_harness {
    ($name:ident, $fetch:expr) => {
        #[kani::proof]
        #[kani::unwind(3)]
        #[kani::stub(alloc::fmt::format, verif_fmt)]
        fn $name() {
            readverify_case($fetch);
        }
    };
}
// 0 Ok(full span), 1 NotFound, 2 other error, 3 Ok(short)
readverify_harness!(c09_readverify_first_try, [0, 0]);
readverify_harness!(c09_readverify_retry_served, [1, 0]);
readverify_harness!(c09_readverify_retry_not_found, [1, 1]);
readverify_harness!(c09_readverify_retry_short, [1, 3]);
readverify_harness!(c09_readverify_backend_error, [2, 0]);
readverify_harness!(c09_readverify_short_read, [3, 0]);
