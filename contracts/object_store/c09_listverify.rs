//! C09.listverify — "tampering is detected ... every read through the encrypted
//! store either returns exactly the originally written bytes or fails": a listing
//! surfaces size / ETag / timestamp from a metadata document, so every document it
//! surfaces must have passed the wrapper's validator (EncryptedStore's
//! `verify_metadata`) — whether it came from the backend or from the metadata cache
//! (which holds documents a failed read loaded but never authenticated). Added
//! after seed C09c (validator applied to backend-fetched documents only).
//!
//! `SidecarStore::listing_entry` is copied VERBATIM — signature and body, every run
//! — into `impl VerifSidecar`; `.await`s stay and are driven by a poll loop of our
//! own. Stand-ins with ASSUMED contracts: `Path`, `Error`, `Arc`, `ObjectMeta`,
//! `ListingMetaPolicy` (same two fields), `meta_cache.get`, `fetch_meta_bytes`,
//! `decode_meta`, `strip_meta_prefix`, `logical_last_modified`; `log::warn!` expands
//! to nothing. The validator is a plain `fn` that records which document it
//! accepted (ghost serial).
use super::*;
use core::future::Future;
use core::mem::ManuallyDrop;
use core::task::{Context, Poll, Waker};

fn block_on<T>(fut: impl Future<Output = T>) -> T {
    let mut fut = core::pin::pin!(fut);
    let mut cx = Context::from_waker(Waker::noop());
    loop {
        if let Poll::Ready(v) = fut.as_mut().poll(&mut cx) {
            return v;
        }
    }
}

mod log {
    macro_rules! verif_log_nop {
        ($($t:tt)*) => {
            ()
        };
    }
    pub(crate) use verif_log_nop as warn;
}

#[derive(Clone, Copy, PartialEq, Eq)]
struct Path(u8);
impl core::fmt::Display for Path {
    fn fmt(&self, _f: &mut core::fmt::Formatter<'_>) -> core::fmt::Result {
        Ok(())
    }
}
struct VerifSource;
#[allow(dead_code)]
enum Error {
    NotFound { path: (), source: VerifSource },
    Generic { store: &'static str, source: VerifSource },
}
impl core::fmt::Display for Error {
    fn fmt(&self, _f: &mut core::fmt::Formatter<'_>) -> core::fmt::Result {
        Ok(())
    }
}
type Result<T, E = Error> = core::result::Result<T, E>;

#[derive(Clone)]
struct Arc<T>(T);
impl<T> Arc<T> {
    fn new(v: T) -> Self {
        Arc(v)
    }
}
impl<T> core::ops::Deref for Arc<T> {
    type Target = T;
    fn deref(&self) -> &T {
        &self.0
    }
}

#[derive(Clone, Copy, PartialEq, Eq)]
struct VerifTime(u8);
struct ObjectMeta {
    location: Path,
    last_modified: VerifTime,
    size: u64,
    e_tag: Option<String>,
    version: Option<String>,
}
fn logical_last_modified(committed_at_ms: Option<u64>, _generation: Option<&str>) -> Option<VerifTime> {
    committed_at_ms.map(|_| VerifTime(1))
}

#[derive(Clone, Copy)]
struct VerifMeta {
    /// ghost: 1 = the cached document, 2 = the document fetched from the backend
    serial: u8,
    size: u64,
}
impl VerifMeta {
    const STORE_NAME: &'static str = "verif";
    fn committed_at_ms(&self) -> Option<u64> {
        None
    }
    fn generation(&self) -> Option<&str> {
        None
    }
    fn size(&self) -> u64 {
        self.size
    }
    fn e_tag(&self) -> Option<&str> {
        None
    }
}
type M = VerifMeta;

struct ListingMetaPolicy<M> {
    reject_corrupt: bool,
    validator: Option<fn(&Path, &M) -> Result<()>>,
}

// ghost of the validator (a plain fn: it cannot capture)
static mut VERIF_ACCEPTS: bool = false;
static mut VERIF_VALIDATED: u8 = 0;
fn verif_validator(_location: &Path, meta: &M) -> Result<()> {
    // SAFETY: one thread (Kani is sequential); by-value accesses only
    unsafe {
        if VERIF_ACCEPTS {
            VERIF_VALIDATED = meta.serial;
            Ok(())
        } else {
            Err(Error::Generic { store: "verif", source: VerifSource })
        }
    }
}

#[derive(Clone, Copy)]
struct Knobs {
    cached: bool,
    /// 0 Ok, 1 NotFound, 2 other
    fetch: u8,
    decodes: bool,
    cached_size: u64,
    backend_size: u64,
}
struct VerifBytes;
struct VerifDecodeError;
struct VerifCache {
    k: Knobs,
}
impl VerifCache {
    async fn get(&self, _location: &Path) -> Option<Arc<M>> {
        if self.k.cached { Some(Arc(VerifMeta { serial: 1, size: self.k.cached_size })) } else { None }
    }
}
struct VerifSidecar {
    meta_cache: VerifCache,
    k: Knobs,
}

#[allow(dead_code, unused_variables)]
impl VerifSidecar {
    fn strip_meta_prefix(&self, path: Path) -> Path {
        path
    }
    async fn fetch_meta_bytes(&self, _location: &Path) -> Result<VerifBytes> {
        match self.k.fetch {
            0 => Ok(VerifBytes),
            1 => Err(Error::NotFound { path: (), source: VerifSource }),
            _ => Err(Error::Generic { store: "verif", source: VerifSource }),
        }
    }
    fn decode_meta(&self, _location: &Path, _data: &VerifBytes) -> Result<M> {
        if self.k.decodes {
            Ok(VerifMeta { serial: 2, size: self.k.backend_size })
        } else {
            Err(Error::Generic { store: "verif", source: VerifSource })
        }
    }

/*@EXTRACT:listing_entry@*/
}

#[kani::proof]
#[kani::unwind(3)]
fn c09_listverify_listing_entry() {
    let k = Knobs {
        cached: kani::any(),
        fetch: kani::any(),
        decodes: kani::any(),
        cached_size: kani::any(),
        backend_size: kani::any(),
    };
    kani::assume(k.fetch <= 2);
    let accepts: bool = kani::any();
    unsafe {
        VERIF_ACCEPTS = accepts;
    }
    let has_validator: bool = kani::any();
    let policy = ListingMetaPolicy::<M> {
        reject_corrupt: kani::any(),
        validator: if has_validator { Some(verif_validator) } else { None },
    };
    let s = ManuallyDrop::new(VerifSidecar { meta_cache: VerifCache { k }, k });
    let obj = ObjectMeta { location: Path(7), last_modified: VerifTime(0), size: 0, e_tag: None, version: None };
    let r = ManuallyDrop::new(block_on(s.listing_entry(obj, &policy)));
    let validated = unsafe { VERIF_VALIDATED };
    let surfaced_serial: u8 = if k.cached { 1 } else { 2 };
    if let Ok(Some(entry)) = &*r {
        if has_validator {
            // what a verifying wrapper's listing shows comes from a document the
            // validator accepted — the cached one included
            assert!(accepts && validated == surfaced_serial, "OBL:C09.listverify.surfaced_entry_was_validated");
        }
        assert!(entry.size == if k.cached { k.cached_size } else { k.backend_size }, "OBL:C09.listverify.entry_reports_the_validated_document");
    }
    // a document the validator refuses is never surfaced
    if has_validator && !accepts {
        assert!(!matches!(&*r, Ok(Some(_))), "OBL:C09.listverify.refused_document_is_never_surfaced");
    }
    kani::cover!(matches!(&*r, Ok(Some(_))) && k.cached && has_validator, "COVER:cached_surfaced");
    kani::cover!(matches!(&*r, Ok(Some(_))) && !k.cached && has_validator, "COVER:fetched_surfaced");
    kani::cover!(matches!(&*r, Ok(None)), "COVER:skipped");
    kani::cover!(r.is_err(), "COVER:refused");
    kani::cover!(true, "COVER:reach");
}
