//! C09.caad — contract of `chunk_aad` (rs/anda_object_store/src/encryption.rs).
//!
//! Child module of `encryption` (cfg(kani), scratch copy only). The per-chunk GCM
//! tag authenticates `chunk_aad(chunk_size, chunk_index)`; the property sentence
//! "reordering or swapping bytes of payload ... never returns different bytes"
//! needs that AAD to identify (chunk_size, chunk_index) uniquely, so that a chunk
//! (ciphertext + tag) moved to another index, or reinterpreted under another chunk
//! size, fails authentication.
use super::*;
use core::mem::ManuallyDrop;

/// Documented layout ("36 bytes of domain separation + 8 + 8 bytes of chunk
/// binding"): fixed length, hence never the empty (legacy) AAD.
/// (Harness form: the attribute form `kani::ensures(post_fixed_len)` +
/// `proof_for_contract(chunk_aad)` did not finish in 120 s — contract
/// instrumentation of the Vec allocation — while this form takes ~3 s.)
fn post_fixed_len(r: &Vec<u8>) -> bool {
    // the byte count itself (52 today) is wire format, not part of C09: what the
    // property needs is a non-empty AAD of the SAME width for every input
    !r.is_empty() && r.len() <= 52
}

/// Byte-wise comparison with a loop of our own (bounded by the documented length).
fn same_bytes(a: &[u8], b: &[u8]) -> bool {
    if a.len() != b.len() {
        return false;
    }
    let mut k = 0;
    while k < a.len() {
        if a[k] != b[k] {
            return false;
        }
        k += 1;
    }
    true
}

/// Relational form: two (chunk_size, chunk_index) pairs have the same AAD iff they
/// are the same pair — every u64^4. The only loop is the 52-byte comparison.
#[kani::proof]
#[kani::unwind(54)]
fn c09_caad_injective() {
    let s: u64 = kani::any();
    let i: u64 = kani::any();
    let s2: u64 = kani::any();
    let i2: u64 = kani::any();
    let a = ManuallyDrop::new(chunk_aad(s, i));
    let b = ManuallyDrop::new(chunk_aad(s2, i2));
    assert!(post_fixed_len(&a) && post_fixed_len(&b) && a.len() == b.len(), "OBL:C09.caad.fixed_len");
    // the two halves in the property's words first (Kani assumes an assertion after
    // checking it, so the most specific obligation is the one that gets named)
    if i != i2 {
        assert!(!same_bytes(&a, &b), "OBL:C09.caad.index_bound");
    }
    if s != s2 {
        assert!(!same_bytes(&a, &b), "OBL:C09.caad.chunk_size_bound");
    }
    assert!(
        same_bytes(&a, &b) == (s == s2 && i == i2),
        "OBL:C09.caad.injective"
    );
    kani::cover!(s == s2 && i != i2, "COVER:replay_at_other_index");
    kani::cover!(s != s2 && i == i2, "COVER:other_chunk_size");
    kani::cover!(s == s2 && i == i2, "COVER:same_pair");
    kani::cover!(true, "COVER:reach");
}
