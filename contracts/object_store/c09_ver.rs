//! C09.ver — contracts of `chunk_aad_version`, `chunk_aad_for_meta` and
//! `ensure_chunk_aad_version` (rs/anda_object_store/src/encryption.rs).
//!
//! Child module of `encryption` (cfg(kani), scratch copy only). These three decide
//! WHICH additional authenticated data a chunk tag is verified against. The
//! property ("reordering or swapping ... chunks", "stripping authentication fields")
//! needs: only the two known versions are ever accepted; an unknown version is an
//! error, not a silent fall-back to the unbound legacy AAD; the empty (unbound) AAD
//! is used for the legacy version only; the bound AAD identifies (chunk_size, index);
//! and pinning the version before a reseal cannot change how chunks are verified.
//! The spec below is written from the field documentation of
//! `Metadata::chunk_aad_version`, not from the function bodies.
use super::*;
use core::mem::ManuallyDrop;

pub(super) fn stub_format(_args: core::fmt::Arguments<'_>) -> String {
    String::new()
}

/// Documented resolution of the chunk-AAD version: an explicit known version is
/// taken as is, an explicit unknown version is invalid (None), an absent version
/// means BOUND for sealed documents (both authentication fields present) and LEGACY
/// for unsealed (older) ones.
fn spec_version(explicit: Option<u8>, has_nonce: bool, has_tag: bool) -> Option<u8> {
    match explicit {
        Some(v) => {
            if v == CHUNK_AAD_LEGACY || v == CHUNK_AAD_BOUND {
                Some(v)
            } else {
                None
            }
        }
        None => {
            if has_nonce && has_tag {
                Some(CHUNK_AAD_BOUND)
            } else {
                Some(CHUNK_AAD_LEGACY)
            }
        }
    }
}

fn any_opt_u64() -> Option<u64> {
    if kani::any() { Some(kani::any()) } else { None }
}

/// Metadata of a fixed heap shape (no strings, no tags — none of the three fns reads
/// them) with every scalar the fns could read symbolic: explicit version over all of
/// Option<u8>, presence and content of both authentication fields.
fn any_meta() -> (ManuallyDrop<Metadata>, Option<u8>, bool, bool) {
    let explicit: Option<u8> = kani::any();
    let has_nonce: bool = kani::any();
    let has_tag: bool = kani::any();
    let n: [u8; 12] = kani::any();
    let t: [u8; 16] = kani::any();
    let meta = Metadata {
        size: kani::any(),
        e_tag: None,
        original_tag: None,
        original_version: None,
        aes_nonce: ByteArray::new(kani::any()),
        aes_tags: Vec::new(),
        chunk_size: any_opt_u64(),
        chunk_aad_version: explicit,
        auth_nonce: if has_nonce { Some(ByteArray::new(n)) } else { None },
        auth_tag: if has_tag { Some(ByteArray::new(t)) } else { None },
        generation: None,
        committed_at_ms: any_opt_u64(),
    };
    (ManuallyDrop::new(meta), explicit, has_nonce, has_tag)
}

fn same_bytes(a: &[u8], b: &[u8]) -> bool {
    if a.len() != b.len() {
        return false;
    }
    let mut k = 0;
    while k < a.len() {
        if a[k] != b[k] {
            return false;
        }
        k += 1;
    }
    true
}

/// `chunk_aad_version` over every Option<u8> x presence of both auth fields.
#[kani::proof]
#[kani::unwind(2)]
#[kani::stub(alloc::fmt::format, stub_format)]
fn c09_ver_version() {
    let (meta, explicit, has_nonce, has_tag) = any_meta();
    let r = ManuallyDrop::new(chunk_aad_version(&meta));
    let want = spec_version(explicit, has_nonce, has_tag);
    // (Kani assumes an assertion after checking it: most specific obligation first.)
    if let Some(x) = explicit {
        if x != CHUNK_AAD_LEGACY && x != CHUNK_AAD_BOUND {
            assert!(r.is_err(), "OBL:C09.ver.unknown_rejected");
        }
    }
    match &*r {
        Ok(v) => {
            assert!(
                *v == CHUNK_AAD_LEGACY || *v == CHUNK_AAD_BOUND,
                "OBL:C09.ver.known_only"
            );
            if let Some(x) = explicit {
                assert!(*v == x, "OBL:C09.ver.explicit_respected");
            } else {
                assert!(
                    (*v == CHUNK_AAD_BOUND) == (has_nonce && has_tag),
                    "OBL:C09.ver.absent_default"
                );
            }
        }
        Err(_) => {
            // rejects ONLY an explicit unknown version (a known/absent one must resolve)
            assert!(want.is_none(), "OBL:C09.ver.rejects_only_unknown");
        }
    }
    kani::cover!(matches!(&*r, Ok(v) if *v == CHUNK_AAD_LEGACY), "COVER:legacy");
    kani::cover!(matches!(&*r, Ok(v) if *v == CHUNK_AAD_BOUND), "COVER:bound");
    kani::cover!(r.is_err(), "COVER:err");
    kani::cover!(true, "COVER:reach");
}

/// `chunk_aad_for_meta`: which AAD a reader verifies chunk `index` against.
#[kani::proof]
#[kani::unwind(54)]
#[kani::stub(alloc::fmt::format, stub_format)]
fn c09_ver_for_meta() {
    let (meta, explicit, has_nonce, has_tag) = any_meta();
    let want = spec_version(explicit, has_nonce, has_tag);
    let s: u64 = kani::any();
    let i: u64 = kani::any();
    let s2: u64 = kani::any();
    let i2: u64 = kani::any();
    let a = ManuallyDrop::new(chunk_aad_for_meta(&meta, s, i));
    let b = ManuallyDrop::new(chunk_aad_for_meta(&meta, s2, i2));
    match (&*a, &*b) {
        (Ok(a), Ok(b)) => {
            assert!(want.is_some(), "OBL:C09.ver.unknown_rejected");
            let bound = want == Some(CHUNK_AAD_BOUND);
            // the unbound (empty) AAD is used for LEGACY only
            assert!(a.is_empty() == !bound, "OBL:C09.ver.empty_aad_only_for_legacy");
            if bound {
                // under a BOUND document the AAD identifies (chunk_size, index)
                assert!(
                    same_bytes(a, b) == (s == s2 && i == i2),
                    "OBL:C09.ver.bound_aad_binds_index"
                );
                kani::cover!(i != i2, "COVER:bound_other_index");
            } else {
                kani::cover!(true, "COVER:legacy_empty");
            }
        }
        (Err(_), Err(_)) => {
            assert!(want.is_none(), "OBL:C09.ver.rejects_only_unknown");
            kani::cover!(true, "COVER:err");
        }
        _ => {
            // the verdict depends on the document only, never on (chunk_size, index)
            assert!(false, "OBL:C09.ver.rejects_only_unknown");
        }
    }
    kani::cover!(true, "COVER:reach");
}

/// `ensure_chunk_aad_version` (copy / rename: "pin the chunk-AAD version explicitly
/// so legacy ciphertext stays readable under the resealed target document").
#[kani::proof]
#[kani::unwind(2)]
#[kani::stub(alloc::fmt::format, stub_format)]
fn c09_ver_ensure() {
    let (mut meta, explicit, has_nonce, has_tag) = any_meta();
    let want = spec_version(explicit, has_nonce, has_tag);
    let r = ManuallyDrop::new(ensure_chunk_aad_version(&mut *meta));
    if r.is_ok() {
        // pinned to exactly the version the chunks were written / verified with
        assert!(want.is_some(), "OBL:C09.ver.unknown_rejected");
        assert!(meta.chunk_aad_version == want, "OBL:C09.ver.pin_resolved");
        // sealing afterwards (both auth fields become present) cannot flip it
        let n: [u8; 12] = kani::any();
        let t: [u8; 16] = kani::any();
        meta.auth_nonce = Some(ByteArray::new(n));
        meta.auth_tag = Some(ByteArray::new(t));
        let after = ManuallyDrop::new(chunk_aad_version(&meta));
        assert!(
            matches!((&*after, want), (Ok(v), Some(w)) if *v == w),
            "OBL:C09.ver.pin_stable_under_seal"
        );
        kani::cover!(explicit.is_none() && want == Some(CHUNK_AAD_LEGACY), "COVER:pins_legacy");
        kani::cover!(explicit.is_none() && want == Some(CHUNK_AAD_BOUND), "COVER:pins_bound");
    } else {
        assert!(want.is_none(), "OBL:C09.ver.rejects_only_unknown");
        assert!(meta.chunk_aad_version == explicit, "OBL:C09.ver.pin_resolved");
        kani::cover!(true, "COVER:err");
    }
    kani::cover!(true, "COVER:reach");
}
