//! C09.cover — field coverage of the sealed metadata AAD: `metadata_auth_aad` and
//! its encoders `push_bytes` / `push_opt_str` / `push_opt_u64` / `push_opt_u8`
//! (rs/anda_object_store/src/encryption.rs).
//!
//! Child module of `encryption` (cfg(kani), scratch copy only). Property sentence:
//! "flipping, truncating, extending, reordering or swapping bytes of ... metadata
//! objects, exchanging objects between keys, re-pointing a key at another generation
//! ... never returns different bytes". The seal is a GMAC over
//! `metadata_auth_aad(location, meta)`; a tampered field is detected only if it
//! changes that byte string. Obligation per authenticated input F:
//!
//!     two (location, metadata) values that differ ONLY in F have different AAD.
//!
//! Every field of `Metadata` is named in the struct literal below (no `..`), so a
//! field added to `Metadata` later breaks the build of this module (UNDECIDED) until
//! it is given a coverage obligation here.
//!
//! Rule 1: Option presence, string lengths (0..=2) and the number of chunk tags
//! (0..=2) are concrete shapes; every byte / number inside a shape is symbolic. Each
//! obligation is checked in two concrete surroundings: `poor` (every other optional
//! field absent, no tags) and `rich` (every other optional field present with
//! symbolic content, one tag) — so the changed field sits at different offsets.
use super::*;
use core::mem::ManuallyDrop;

// ---------------------------------------------------------------------------
// helpers
// ---------------------------------------------------------------------------

/// `a != b` as byte strings, with a straight-line loop of our own.
fn differ(a: &[u8], b: &[u8]) -> bool {
    if a.len() != b.len() {
        return true;
    }
    let mut d = false;
    let mut k = 0;
    while k < a.len() {
        d |= a[k] != b[k];
        k += 1;
    }
    d
}

fn ascii() -> u8 {
    let b: u8 = kani::any();
    kani::assume(b < 0x80);
    b
}

/// String shapes: absent, "", 1 byte, 2 bytes (bytes symbolic ASCII).
#[derive(Clone, Copy, PartialEq, Eq)]
enum S {
    Absent,
    L0,
    L1(u8),
    L2(u8, u8),
}

fn mk_string(bytes: &[u8]) -> String {
    // SAFETY: bytes are ASCII (kani::assume in `ascii`).
    unsafe { String::from_utf8_unchecked(bytes.to_vec()) }
}

fn mk_opt_string(s: S) -> Option<String> {
    match s {
        S::Absent => None,
        S::L0 => Some(String::new()),
        S::L1(a) => Some(mk_string(&[a])),
        S::L2(a, b) => Some(mk_string(&[a, b])),
    }
}

/// Symbolic payload shared by the two metadata values that are compared: drawn once
/// per harness, so the values differ only where the harness makes them differ.
struct Payload {
    size: u64,
    aes_nonce: [u8; 12],
    chunk_size: u64,
    version: u8,
    committed_at_ms: u64,
    tag0: [u8; 16],
    e: u8,
    o: u8,
    v: u8,
    g: u8,
}

fn any_payload() -> Payload {
    Payload {
        size: kani::any(),
        aes_nonce: kani::any(),
        chunk_size: kani::any(),
        version: kani::any(),
        committed_at_ms: kani::any(),
        tag0: kani::any(),
        e: ascii(),
        o: ascii(),
        v: ascii(),
        g: ascii(),
    }
}

/// The surrounding metadata value. `rich` is a compile-time-known shape selector.
fn surrounding(rich: bool, p: &Payload) -> ManuallyDrop<Metadata> {
    let meta = if rich {
        Metadata {
            size: p.size,
            e_tag: Some(mk_string(&[p.e])),
            original_tag: Some(mk_string(&[p.o])),
            original_version: Some(mk_string(&[p.v])),
            aes_nonce: ByteArray::new(p.aes_nonce),
            aes_tags: vec![ByteArray::new(p.tag0)],
            chunk_size: Some(p.chunk_size),
            chunk_aad_version: Some(p.version),
            // the seal itself is not (cannot be) part of what it authenticates
            auth_nonce: None,
            auth_tag: None,
            generation: Some(mk_string(&[p.g])),
            committed_at_ms: Some(p.committed_at_ms),
        }
    } else {
        Metadata {
            size: p.size,
            e_tag: None,
            original_tag: None,
            original_version: None,
            aes_nonce: ByteArray::new(p.aes_nonce),
            aes_tags: Vec::new(),
            chunk_size: None,
            chunk_aad_version: None,
            auth_nonce: None,
            auth_tag: None,
            generation: None,
            committed_at_ms: None,
        }
    };
    ManuallyDrop::new(meta)
}

fn aad(location: &Path, meta: &Metadata) -> ManuallyDrop<Vec<u8>> {
    ManuallyDrop::new(metadata_auth_aad(location, meta))
}

fn root() -> ManuallyDrop<Path> {
    ManuallyDrop::new(Path::default())
}

/// Overwrite a field without running the drop glue of the old value.
macro_rules! set {
    ($place:expr, $val:expr) => {
        core::mem::forget(core::mem::replace(&mut $place, $val))
    };
}

// ---------------------------------------------------------------------------
// numeric / fixed-width fields: full domain (level P)
// ---------------------------------------------------------------------------

/// A plain (non-optional) fixed-width field.
macro_rules! plain_field_harness {
    ($name:ident, $field:ident, $mk:expr, $tag:literal) => {
        #[kani::proof]
        #[kani::unwind(200)]
        fn $name() {
            let p = any_payload();
            let loc = root();
            let x = $mk;
            let y = $mk;
            kani::assume(x != y);
            let mut rich = false;
            loop {
                let mut m = surrounding(rich, &p);
                m.$field = x;
                let a = aad(&loc, &m);
                m.$field = y;
                let b = aad(&loc, &m);
                assert!(differ(&a, &b), $tag);
                if rich {
                    break;
                }
                rich = true;
            }
            kani::cover!(true, "COVER:reach");
        }
    };
}

plain_field_harness!(c09_cover_size, size, kani::any::<u64>(), "OBL:C09.cover.size");
plain_field_harness!(
    c09_cover_aes_nonce,
    aes_nonce,
    ByteArray::new(kani::any::<[u8; 12]>()),
    "OBL:C09.cover.aes_nonce"
);

/// An optional fixed-width field: absent vs present(x), present(x) vs present(y), x != y.
macro_rules! opt_field_harness {
    ($name:ident, $field:ident, $ty:ty, $tag:literal) => {
        #[kani::proof]
        #[kani::unwind(200)]
        fn $name() {
            let p = any_payload();
            let loc = root();
            let x: $ty = kani::any();
            let y: $ty = kani::any();
            kani::assume(x != y);
            let mut rich = false;
            loop {
                let mut m = surrounding(rich, &p);
                m.$field = None;
                let n = aad(&loc, &m);
                m.$field = Some(x);
                let a = aad(&loc, &m);
                m.$field = Some(y);
                let b = aad(&loc, &m);
                assert!(differ(&n, &a), $tag);
                assert!(differ(&a, &b), $tag);
                if rich {
                    break;
                }
                rich = true;
            }
            kani::cover!(true, "COVER:reach");
        }
    };
}

opt_field_harness!(c09_cover_chunk_size, chunk_size, u64, "OBL:C09.cover.chunk_size");
opt_field_harness!(
    c09_cover_chunk_aad_version,
    chunk_aad_version,
    u8,
    "OBL:C09.cover.chunk_aad_version"
);
opt_field_harness!(
    c09_cover_committed_at_ms,
    committed_at_ms,
    u64,
    "OBL:C09.cover.committed_at_ms"
);

// ---------------------------------------------------------------------------
// string fields: absent / "" / 1 byte / 2 bytes (level B, <= 2 bytes)
// ---------------------------------------------------------------------------

macro_rules! string_field_harness {
    ($name:ident, $field:ident, $tag:literal) => {
        #[kani::proof]
        #[kani::unwind(200)]
        fn $name() {
            let p = any_payload();
            let loc = root();
            let (a1, b1, a2, b2) = (ascii(), ascii(), ascii(), ascii());
            // six values of the field; any two of them that are different values
            // must give different AADs
            let vals: [S; 6] = [S::Absent, S::L0, S::L1(a1), S::L1(b1), S::L2(a1, a2), S::L2(b1, b2)];
            let mut rich = false;
            loop {
                let mut m = surrounding(rich, &p);
                set!(m.$field, mk_opt_string(vals[0]));
                let r0 = aad(&loc, &m);
                set!(m.$field, mk_opt_string(vals[1]));
                let r1 = aad(&loc, &m);
                set!(m.$field, mk_opt_string(vals[2]));
                let r2 = aad(&loc, &m);
                set!(m.$field, mk_opt_string(vals[3]));
                let r3 = aad(&loc, &m);
                set!(m.$field, mk_opt_string(vals[4]));
                let r4 = aad(&loc, &m);
                set!(m.$field, mk_opt_string(vals[5]));
                let r5 = aad(&loc, &m);
                let rs: [&[u8]; 6] = [&r0, &r1, &r2, &r3, &r4, &r5];
                let mut i = 0;
                while i < 6 {
                    let mut j = i + 1;
                    while j < 6 {
                        if vals[i] != vals[j] {
                            assert!(differ(rs[i], rs[j]), $tag);
                        }
                        j += 1;
                    }
                    i += 1;
                }
                if rich {
                    break;
                }
                rich = true;
            }
            kani::cover!(a1 != b1, "COVER:same_len_diff_bytes");
            kani::cover!(true, "COVER:reach");
        }
    };
}

string_field_harness!(c09_cover_e_tag, e_tag, "OBL:C09.cover.e_tag");
string_field_harness!(c09_cover_original_tag, original_tag, "OBL:C09.cover.original_tag");
string_field_harness!(
    c09_cover_original_version,
    original_version,
    "OBL:C09.cover.original_version"
);
string_field_harness!(c09_cover_generation, generation, "OBL:C09.cover.generation");

// ---------------------------------------------------------------------------
// chunk tags: 0..=2 tags (level B)
// ---------------------------------------------------------------------------

#[kani::proof]
#[kani::unwind(200)]
fn c09_cover_aes_tags() {
    let p = any_payload();
    let loc = root();
    let t1: [u8; 16] = kani::any();
    let t2: [u8; 16] = kani::any();
    let u1: [u8; 16] = kani::any();
    let u2: [u8; 16] = kani::any();
    let b = |x: [u8; 16]| ByteArray::<16>::new(x);
    let mut rich = false;
    loop {
        let mut m = surrounding(rich, &p);
        set!(m.aes_tags, Vec::new());
        let r0 = aad(&loc, &m);
        set!(m.aes_tags, vec![b(t1)]);
        let r1 = aad(&loc, &m);
        set!(m.aes_tags, vec![b(u1)]);
        let r1u = aad(&loc, &m);
        set!(m.aes_tags, vec![b(t1), b(t2)]);
        let r2 = aad(&loc, &m);
        set!(m.aes_tags, vec![b(u1), b(u2)]);
        let r2u = aad(&loc, &m);
        // truncating / extending the tag list
        assert!(differ(&r0, &r1), "OBL:C09.cover.aes_tags");
        assert!(differ(&r0, &r2), "OBL:C09.cover.aes_tags");
        assert!(differ(&r1, &r2), "OBL:C09.cover.aes_tags");
        assert!(differ(&r1u, &r2), "OBL:C09.cover.aes_tags");
        // changing any byte of any tag; includes swapping two tags (u = (t2, t1))
        if t1 != u1 {
            assert!(differ(&r1, &r1u), "OBL:C09.cover.aes_tags");
        }
        if t1 != u1 || t2 != u2 {
            assert!(differ(&r2, &r2u), "OBL:C09.cover.aes_tags");
        }
        if rich {
            break;
        }
        rich = true;
    }
    kani::cover!(t1 == u2 && t2 == u1 && t1 != t2, "COVER:swapped_tags");
    kani::cover!(true, "COVER:reach");
}

// ---------------------------------------------------------------------------
// encoders: append-only and prefix-free — what makes the concatenation above
// unambiguous field by field
// ---------------------------------------------------------------------------

/// Some byte at a common position differs: neither output is a prefix of the other.
fn diverge(a: &[u8], b: &[u8]) -> bool {
    let n = if a.len() < b.len() { a.len() } else { b.len() };
    let mut d = false;
    let mut k = 0;
    while k < n {
        d |= a[k] != b[k];
        k += 1;
    }
    d
}

fn keeps_prefix(out: &[u8], prefix: &[u8]) -> bool {
    if out.len() < prefix.len() {
        return false;
    }
    let mut ok = true;
    let mut k = 0;
    while k < prefix.len() {
        ok &= out[k] == prefix[k];
        k += 1;
    }
    ok
}

#[kani::proof]
#[kani::unwind(16)]
fn c09_cover_push_opt_scalars() {
    let pre: [u8; 3] = kani::any();
    // push_opt_u64
    let x: Option<u64> = kani::any();
    let y: Option<u64> = kani::any();
    let mut ox = ManuallyDrop::new(pre.to_vec());
    let mut oy = ManuallyDrop::new(pre.to_vec());
    push_opt_u64(&mut ox, x);
    push_opt_u64(&mut oy, y);
    assert!(keeps_prefix(&ox, &pre) && ox.len() > 3, "OBL:C09.cover.encoders_append_only");
    if x != y {
        assert!(diverge(&ox, &oy), "OBL:C09.cover.encoders_prefix_free");
    }
    kani::cover!(x.is_none() && y.is_some(), "COVER:u64_absent_vs_present");
    // push_opt_u8
    let x: Option<u8> = kani::any();
    let y: Option<u8> = kani::any();
    let mut ox = ManuallyDrop::new(pre.to_vec());
    let mut oy = ManuallyDrop::new(pre.to_vec());
    push_opt_u8(&mut ox, x);
    push_opt_u8(&mut oy, y);
    assert!(keeps_prefix(&ox, &pre) && ox.len() > 3, "OBL:C09.cover.encoders_append_only");
    if x != y {
        assert!(diverge(&ox, &oy), "OBL:C09.cover.encoders_prefix_free");
    }
    kani::cover!(x.is_some() && y.is_some() && x != y, "COVER:u8_both_present");
    kani::cover!(true, "COVER:reach");
}

#[kani::proof]
#[kani::unwind(24)]
fn c09_cover_push_bytes() {
    let pre: [u8; 3] = kani::any();
    let (a1, a2, b1, b2) = (ascii(), ascii(), ascii(), ascii());
    let la: [&[u8]; 3] = [&[], &[a1], &[a1, a2]];
    let lb: [&[u8]; 3] = [&[], &[b1], &[b1, b2]];
    let mut i = 0;
    while i < 3 {
        let mut j = 0;
        while j < 3 {
            // push_bytes
            let mut oa = ManuallyDrop::new(pre.to_vec());
            let mut ob = ManuallyDrop::new(pre.to_vec());
            push_bytes(&mut oa, la[i]);
            push_bytes(&mut ob, lb[j]);
            assert!(keeps_prefix(&oa, &pre) && oa.len() > 3, "OBL:C09.cover.encoders_append_only");
            let same = i == j && (i < 1 || a1 == b1) && (i < 2 || a2 == b2);
            if !same {
                assert!(diverge(&oa, &ob), "OBL:C09.cover.encoders_prefix_free");
            }
            // push_opt_str, present vs present and present vs absent
            let sa = ManuallyDrop::new(mk_string(la[i]));
            let sb = ManuallyDrop::new(mk_string(lb[j]));
            let mut oa = ManuallyDrop::new(pre.to_vec());
            let mut ob = ManuallyDrop::new(pre.to_vec());
            let mut on = ManuallyDrop::new(pre.to_vec());
            push_opt_str(&mut oa, Some(sa.as_str()));
            push_opt_str(&mut ob, Some(sb.as_str()));
            push_opt_str(&mut on, None);
            assert!(
                keeps_prefix(&oa, &pre) && oa.len() > 3 && keeps_prefix(&on, &pre) && on.len() > 3,
                "OBL:C09.cover.encoders_append_only"
            );
            if !same {
                assert!(diverge(&oa, &ob), "OBL:C09.cover.encoders_prefix_free");
            }
            assert!(diverge(&oa, &on), "OBL:C09.cover.encoders_prefix_free");
            j += 1;
        }
        i += 1;
    }
    kani::cover!(a1 != b1, "COVER:diff_bytes");
    kani::cover!(true, "COVER:reach");
}
