//! C09.cover — field coverage of the sealed metadata AAD: `metadata_auth_aad` and
//! its encoders `push_bytes` / `push_opt_str` / `push_opt_u64` / `push_opt_u8`
//! (rs/anda_object_store/src/encryption.rs).
//!
//! Child module of `encryption` (cfg(kani), scratch copy only). Property sentence:
//! "flipping, truncating, extending, reordering or swapping bytes of ... metadata
//! objects, exchanging objects between keys, re-pointing a key at another generation
//! ... never returns different bytes". The seal is a GMAC over
//! `metadata_auth_aad(location, meta)`; a tampered field is detected only if it
//! changes that byte string. Obligation per authenticated input F:
//!
//!     two (location, metadata) values that differ ONLY in F have different AAD.
//!
//! Every field of `Metadata` is named in the struct literal below (no `..`), so a
//! field added to `Metadata` later breaks the build of this module (UNDECIDED) until
//! it is given a coverage obligation here.
//!
//! Rule 1: Option presence, string lengths (0..=2) and the number of chunk tags
//! (0..=2) are concrete shapes; every byte / number inside a shape is symbolic. Each
//! obligation is checked in two concrete surroundings: `poor` (every other optional
//! field absent, no tags) and `rich` (every other optional field present with
//! symbolic content, one tag) — so the changed field sits at different offsets.
//! One harness per (field, surrounding): CBMC's symbolic execution of the Vec
//! operations slows down super-linearly with the number of `metadata_auth_aad` calls
//! in one harness (measured: 12 calls 85 s, 6 calls 24 s, 2 calls 6.6 s).
use super::*;
use core::mem::ManuallyDrop;

// ---------------------------------------------------------------------------
// helpers
// ---------------------------------------------------------------------------

/// `a != b` as byte strings (slice inequality = length test + memcmp; the harness
/// unwind bound 200 exceeds the longest AAD built here, 193 bytes — measured: 0.2 s
/// per comparison against 1 s for a hand-written loop).
fn differ(a: &[u8], b: &[u8]) -> bool {
    a != b
}

fn ascii() -> u8 {
    let b: u8 = kani::any();
    kani::assume(b < 0x80);
    b
}

/// String shapes: absent, "", 1 byte, 2 bytes (bytes symbolic ASCII).
#[derive(Clone, Copy, PartialEq, Eq)]
enum S {
    Absent,
    L0,
    L1(u8),
    L2(u8, u8),
}

fn mk_string(bytes: &[u8]) -> String {
    // SAFETY: bytes are ASCII (kani::assume in `ascii`).
    unsafe { String::from_utf8_unchecked(bytes.to_vec()) }
}

fn mk_opt_string(s: S) -> Option<String> {
    match s {
        S::Absent => None,
        S::L0 => Some(String::new()),
        S::L1(a) => Some(mk_string(&[a])),
        S::L2(a, b) => Some(mk_string(&[a, b])),
    }
}

/// Symbolic payload shared by the two metadata values that are compared: drawn once
/// per harness, so the values differ only where the harness makes them differ.
struct Payload {
    size: u64,
    aes_nonce: [u8; 12],
    chunk_size: u64,
    version: u8,
    committed_at_ms: u64,
    tag0: [u8; 16],
    e: u8,
    o: u8,
    v: u8,
    g: u8,
}

fn any_payload() -> Payload {
    Payload {
        size: kani::any(),
        aes_nonce: kani::any(),
        chunk_size: kani::any(),
        version: kani::any(),
        committed_at_ms: kani::any(),
        tag0: kani::any(),
        e: ascii(),
        o: ascii(),
        v: ascii(),
        g: ascii(),
    }
}

/// The surrounding metadata value. `rich` is a compile-time-known shape selector.
fn surrounding(rich: bool, p: &Payload) -> ManuallyDrop<Metadata> {
    let meta = if rich {
        Metadata {
            size: p.size,
            e_tag: Some(mk_string(&[p.e])),
            original_tag: Some(mk_string(&[p.o])),
            original_version: Some(mk_string(&[p.v])),
            aes_nonce: ByteArray::new(p.aes_nonce),
            aes_tags: vec![ByteArray::new(p.tag0)],
            chunk_size: Some(p.chunk_size),
            chunk_aad_version: Some(p.version),
            // the seal itself is not (cannot be) part of what it authenticates
            auth_nonce: None,
            auth_tag: None,
            generation: Some(mk_string(&[p.g])),
            committed_at_ms: Some(p.committed_at_ms),
        }
    } else {
        Metadata {
            size: p.size,
            e_tag: None,
            original_tag: None,
            original_version: None,
            aes_nonce: ByteArray::new(p.aes_nonce),
            aes_tags: Vec::new(),
            chunk_size: None,
            chunk_aad_version: None,
            auth_nonce: None,
            auth_tag: None,
            generation: None,
            committed_at_ms: None,
        }
    };
    ManuallyDrop::new(meta)
}

fn aad(location: &Path, meta: &Metadata) -> ManuallyDrop<Vec<u8>> {
    ManuallyDrop::new(metadata_auth_aad(location, meta))
}

fn root() -> ManuallyDrop<Path> {
    ManuallyDrop::new(Path::default())
}

/// Overwrite a field without running the drop glue of the old value.
macro_rules! set {
    ($place:expr, $val:expr) => {
        core::mem::forget(core::mem::replace(&mut $place, $val))
    };
}

// ---------------------------------------------------------------------------
// numeric / fixed-width fields: full domain (level P)
// ---------------------------------------------------------------------------

/// A plain (non-optional) fixed-width field: any two different values.
macro_rules! plain_field_harness {
    ($name:ident, $rich:expr, $field:ident, $mk:expr, $tag:literal) => {
        #[kani::proof]
        #[kani::unwind(200)]
        fn $name() {
            let p = any_payload();
            let loc = root();
            let x = $mk;
            let y = $mk;
            kani::assume(x != y);
            let mut m = surrounding($rich, &p);
            m.$field = x;
            let a = aad(&loc, &m);
            m.$field = y;
            let b = aad(&loc, &m);
            assert!(differ(&a, &b), $tag);
            kani::cover!(true, "COVER:reach");
        }
    };
}

plain_field_harness!(c09_cover_size_poor, false, size, kani::any::<u64>(), "OBL:C09.cover.size");
plain_field_harness!(c09_cover_size_rich, true, size, kani::any::<u64>(), "OBL:C09.cover.size");
plain_field_harness!(
    c09_cover_aes_nonce_poor,
    false,
    aes_nonce,
    ByteArray::new(kani::any::<[u8; 12]>()),
    "OBL:C09.cover.aes_nonce"
);
plain_field_harness!(
    c09_cover_aes_nonce_rich,
    true,
    aes_nonce,
    ByteArray::new(kani::any::<[u8; 12]>()),
    "OBL:C09.cover.aes_nonce"
);

/// An optional fixed-width field: absent vs present(x), present(x) vs present(y), x != y.
macro_rules! opt_field_harness {
    ($name:ident, $rich:expr, $field:ident, $ty:ty, $tag:literal) => {
        #[kani::proof]
        #[kani::unwind(200)]
        fn $name() {
            let p = any_payload();
            let loc = root();
            let x: $ty = kani::any();
            let y: $ty = kani::any();
            kani::assume(x != y);
            let mut m = surrounding($rich, &p);
            m.$field = None;
            let n = aad(&loc, &m);
            m.$field = Some(x);
            let a = aad(&loc, &m);
            m.$field = Some(y);
            let b = aad(&loc, &m);
            assert!(differ(&n, &a), $tag);
            assert!(differ(&a, &b), $tag);
            kani::cover!(true, "COVER:reach");
        }
    };
}

opt_field_harness!(c09_cover_chunk_size_poor, false, chunk_size, u64, "OBL:C09.cover.chunk_size");
opt_field_harness!(c09_cover_chunk_size_rich, true, chunk_size, u64, "OBL:C09.cover.chunk_size");
opt_field_harness!(
    c09_cover_chunk_aad_version_poor,
    false,
    chunk_aad_version,
    u8,
    "OBL:C09.cover.chunk_aad_version"
);
opt_field_harness!(
    c09_cover_chunk_aad_version_rich,
    true,
    chunk_aad_version,
    u8,
    "OBL:C09.cover.chunk_aad_version"
);
opt_field_harness!(
    c09_cover_committed_at_ms_poor,
    false,
    committed_at_ms,
    u64,
    "OBL:C09.cover.committed_at_ms"
);
opt_field_harness!(
    c09_cover_committed_at_ms_rich,
    true,
    committed_at_ms,
    u64,
    "OBL:C09.cover.committed_at_ms"
);

// ---------------------------------------------------------------------------
// string fields: absent / "" / 1 byte / 2 bytes (level B, <= 2 bytes)
// ---------------------------------------------------------------------------

/// Five values of the field — absent, "", [a1], [a1,a2], [b1,b2] — any two of them
/// that are different values must give different AADs (straight-line: indexing a
/// table of slices by a loop variable makes the lengths symbolic for CBMC).
/// In the `rich` surrounding (twice the cost per call) three values: absent,
/// [a1,a2], [b1,b2].
macro_rules! string_field_harness {
    ($name:ident, poor, $field:ident, $tag:literal) => {
        #[kani::proof]
        #[kani::unwind(200)]
        fn $name() {
            let p = any_payload();
            let loc = root();
            let (a1, a2, b1, b2) = (ascii(), ascii(), ascii(), ascii());
            let mut m = surrounding(false, &p);
            set!(m.$field, mk_opt_string(S::Absent));
            let r_abs = aad(&loc, &m);
            set!(m.$field, mk_opt_string(S::L0));
            let r_0 = aad(&loc, &m);
            set!(m.$field, mk_opt_string(S::L1(a1)));
            let r_1a = aad(&loc, &m);
            set!(m.$field, mk_opt_string(S::L2(a1, a2)));
            let r_2a = aad(&loc, &m);
            set!(m.$field, mk_opt_string(S::L2(b1, b2)));
            let r_2b = aad(&loc, &m);
            // presence and length
            assert!(differ(&r_abs, &r_0), $tag);
            assert!(differ(&r_abs, &r_1a), $tag);
            assert!(differ(&r_abs, &r_2a), $tag);
            assert!(differ(&r_0, &r_1a), $tag);
            assert!(differ(&r_0, &r_2a), $tag);
            assert!(differ(&r_1a, &r_2a), $tag);
            assert!(differ(&r_1a, &r_2b), $tag);
            // content (either byte)
            if a1 != b1 || a2 != b2 {
                assert!(differ(&r_2a, &r_2b), $tag);
            }
            kani::cover!(a1 == b1 && a2 != b2, "COVER:second_byte_only");
            kani::cover!(true, "COVER:reach");
        }
    };
    ($name:ident, rich, $field:ident, $tag:literal) => {
        #[kani::proof]
        #[kani::unwind(200)]
        fn $name() {
            let p = any_payload();
            let loc = root();
            let (a1, a2, b1, b2) = (ascii(), ascii(), ascii(), ascii());
            let mut m = surrounding(true, &p);
            set!(m.$field, mk_opt_string(S::Absent));
            let r_abs = aad(&loc, &m);
            set!(m.$field, mk_opt_string(S::L2(a1, a2)));
            let r_2a = aad(&loc, &m);
            set!(m.$field, mk_opt_string(S::L2(b1, b2)));
            let r_2b = aad(&loc, &m);
            assert!(differ(&r_abs, &r_2a), $tag);
            if a1 != b1 || a2 != b2 {
                assert!(differ(&r_2a, &r_2b), $tag);
            }
            kani::cover!(a1 == b1 && a2 != b2, "COVER:second_byte_only");
            kani::cover!(true, "COVER:reach");
        }
    };
}

string_field_harness!(c09_cover_e_tag_poor, poor, e_tag, "OBL:C09.cover.e_tag");
string_field_harness!(c09_cover_e_tag_rich, rich, e_tag, "OBL:C09.cover.e_tag");
string_field_harness!(c09_cover_original_tag_poor, poor, original_tag, "OBL:C09.cover.original_tag");
string_field_harness!(c09_cover_original_tag_rich, rich, original_tag, "OBL:C09.cover.original_tag");
string_field_harness!(
    c09_cover_original_version_poor,
    poor,
    original_version,
    "OBL:C09.cover.original_version"
);
string_field_harness!(
    c09_cover_original_version_rich,
    rich,
    original_version,
    "OBL:C09.cover.original_version"
);
string_field_harness!(c09_cover_generation_poor, poor, generation, "OBL:C09.cover.generation");
string_field_harness!(c09_cover_generation_rich, rich, generation, "OBL:C09.cover.generation");

// ---------------------------------------------------------------------------
// chunk tags: 0..=2 tags (level B)
// ---------------------------------------------------------------------------

fn tag16(x: [u8; 16]) -> ByteArray<16> {
    ByteArray::new(x)
}

macro_rules! tags_harness {
    ($name:ident, $rich:expr) => {
        #[kani::proof]
        #[kani::unwind(200)]
        fn $name() {
            let p = any_payload();
            let loc = root();
            let t1: [u8; 16] = kani::any();
            let t2: [u8; 16] = kani::any();
            let u1: [u8; 16] = kani::any();
            let u2: [u8; 16] = kani::any();
            let mut m = surrounding($rich, &p);
            set!(m.aes_tags, Vec::new());
            let r0 = aad(&loc, &m);
            set!(m.aes_tags, vec![tag16(t1)]);
            let r1 = aad(&loc, &m);
            set!(m.aes_tags, vec![tag16(t1), tag16(t2)]);
            let r2 = aad(&loc, &m);
            set!(m.aes_tags, vec![tag16(u1), tag16(u2)]);
            let r2u = aad(&loc, &m);
            // truncating / extending the tag list
            assert!(differ(&r0, &r1), "OBL:C09.cover.aes_tags");
            assert!(differ(&r0, &r2), "OBL:C09.cover.aes_tags");
            assert!(differ(&r1, &r2), "OBL:C09.cover.aes_tags");
            assert!(differ(&r1, &r2u), "OBL:C09.cover.aes_tags");
            // changing any byte of any tag; includes swapping two tags (u = (t2, t1))
            if t1 != u1 || t2 != u2 {
                assert!(differ(&r2, &r2u), "OBL:C09.cover.aes_tags");
            }
            kani::cover!(t1 == u2 && t2 == u1 && t1 != t2, "COVER:swapped_tags");
            kani::cover!(true, "COVER:reach");
        }
    };
}

tags_harness!(c09_cover_aes_tags_poor, false);
tags_harness!(c09_cover_aes_tags_rich, true);

// ---------------------------------------------------------------------------
// location (logical path): "exchanging objects between keys"
// ---------------------------------------------------------------------------

/// Five concrete locations built by the REAL constructor (`Path::from(&str)` parses
/// and percent-encodes; with symbolic bytes it did not finish in 300 s): same length
/// / different content, proper prefix with and without a delimiter. All 10 pairs.
#[kani::proof]
#[kani::unwind(200)]
fn c09_cover_path_pool_poor() {
    let p = any_payload();
    let m = surrounding(false, &p);
    let r0 = aad(&root(), &m);
    let r1 = aad(&ManuallyDrop::new(Path::from("a")), &m);
    let r2 = aad(&ManuallyDrop::new(Path::from("b")), &m);
    let r3 = aad(&ManuallyDrop::new(Path::from("a/b")), &m);
    let r4 = aad(&ManuallyDrop::new(Path::from("ab")), &m);
    assert!(differ(&r0, &r1), "OBL:C09.cover.path");
    assert!(differ(&r0, &r2), "OBL:C09.cover.path");
    assert!(differ(&r0, &r3), "OBL:C09.cover.path");
    assert!(differ(&r0, &r4), "OBL:C09.cover.path");
    assert!(differ(&r1, &r2), "OBL:C09.cover.path");
    assert!(differ(&r1, &r3), "OBL:C09.cover.path");
    assert!(differ(&r1, &r4), "OBL:C09.cover.path");
    assert!(differ(&r2, &r3), "OBL:C09.cover.path");
    assert!(differ(&r2, &r4), "OBL:C09.cover.path");
    assert!(differ(&r3, &r4), "OBL:C09.cover.path");
    kani::cover!(true, "COVER:reach");
}

/// In the `rich` surrounding: three of them ('a', 'b', 'a/b'), all 3 pairs.
#[kani::proof]
#[kani::unwind(200)]
fn c09_cover_path_pool_rich() {
    let p = any_payload();
    let m = surrounding(true, &p);
    let r1 = aad(&ManuallyDrop::new(Path::from("a")), &m);
    let r2 = aad(&ManuallyDrop::new(Path::from("b")), &m);
    let r3 = aad(&ManuallyDrop::new(Path::from("a/b")), &m);
    assert!(differ(&r1, &r2), "OBL:C09.cover.path");
    assert!(differ(&r1, &r3), "OBL:C09.cover.path");
    assert!(differ(&r2, &r3), "OBL:C09.cover.path");
    kani::cover!(true, "COVER:reach");
}

/// `object_store::path::Path` is `struct Path { raw: String }` with no unchecked
/// constructor. `metadata_auth_aad` reads it only through `Display` (= the raw
/// string), so for SYMBOLIC path bytes the harness reinterprets a String as a Path.
/// `transmute` refuses to compile if the sizes ever differ (=> UNDECIDED).
fn path_of_bytes(bytes: &[u8]) -> ManuallyDrop<Path> {
    ManuallyDrop::new(unsafe { core::mem::transmute::<String, Path>(mk_string(bytes)) })
}

#[kani::proof]
#[kani::unwind(200)]
fn c09_cover_path_symbolic() {
    let p = any_payload();
    let (a1, a2, b1, b2) = (ascii(), ascii(), ascii(), ascii());
    let m = surrounding(false, &p);
    let r0 = aad(&root(), &m);
    let r1a = aad(&path_of_bytes(&[a1]), &m);
    let r2a = aad(&path_of_bytes(&[a1, a2]), &m);
    let r2b = aad(&path_of_bytes(&[b1, b2]), &m);
    assert!(differ(&r0, &r1a), "OBL:C09.cover.path");
    assert!(differ(&r0, &r2a), "OBL:C09.cover.path");
    assert!(differ(&r1a, &r2a), "OBL:C09.cover.path");
    assert!(differ(&r1a, &r2b), "OBL:C09.cover.path");
    if a1 != b1 || a2 != b2 {
        assert!(differ(&r2a, &r2b), "OBL:C09.cover.path");
    }
    kani::cover!(a1 == b1 && a2 != b2, "COVER:second_byte_only");
    kani::cover!(true, "COVER:reach");
}

// ---------------------------------------------------------------------------
// encoders: append-only and prefix-free — what makes the concatenation above
// unambiguous field by field
// ---------------------------------------------------------------------------

/// Some byte at a common position differs: neither output is a prefix of the other.
fn diverge(a: &[u8], b: &[u8]) -> bool {
    let n = if a.len() < b.len() { a.len() } else { b.len() };
    a[..n] != b[..n]
}

/// The bytes already in `out` are kept (that the encoder ADDS something distinctive
/// is the prefix-free obligation: an encoding that adds nothing is a prefix of all).
fn keeps_prefix(out: &[u8], prefix: &[u8]) -> bool {
    out.len() >= prefix.len() && out[..prefix.len()] == *prefix
}

#[kani::proof]
#[kani::unwind(16)]
fn c09_cover_push_opt_scalars() {
    let pre: [u8; 3] = kani::any();
    // push_opt_u64: presence concrete, payload symbolic
    let x: u64 = kani::any();
    let y: u64 = kani::any();
    let mut on = ManuallyDrop::new(pre.to_vec());
    let mut ox = ManuallyDrop::new(pre.to_vec());
    let mut oy = ManuallyDrop::new(pre.to_vec());
    push_opt_u64(&mut on, None);
    push_opt_u64(&mut ox, Some(x));
    push_opt_u64(&mut oy, Some(y));
    assert!(
        keeps_prefix(&on, &pre) && keeps_prefix(&ox, &pre),
        "OBL:C09.cover.encoders_append_only"
    );
    assert!(diverge(&on, &ox), "OBL:C09.cover.encoders_prefix_free");
    if x != y {
        assert!(diverge(&ox, &oy), "OBL:C09.cover.encoders_prefix_free");
    }
    // push_opt_u8
    let x: u8 = kani::any();
    let y: u8 = kani::any();
    let mut on = ManuallyDrop::new(pre.to_vec());
    let mut ox = ManuallyDrop::new(pre.to_vec());
    let mut oy = ManuallyDrop::new(pre.to_vec());
    push_opt_u8(&mut on, None);
    push_opt_u8(&mut ox, Some(x));
    push_opt_u8(&mut oy, Some(y));
    assert!(
        keeps_prefix(&on, &pre) && keeps_prefix(&ox, &pre),
        "OBL:C09.cover.encoders_append_only"
    );
    assert!(diverge(&on, &ox), "OBL:C09.cover.encoders_prefix_free");
    if x != y {
        assert!(diverge(&ox, &oy), "OBL:C09.cover.encoders_prefix_free");
    }
    kani::cover!(x != y, "COVER:both_present_differ");
    kani::cover!(true, "COVER:reach");
}

#[kani::proof]
#[kani::unwind(24)]
fn c09_cover_push_bytes() {
    let pre: [u8; 3] = kani::any();
    let (a1, a2, b1, b2) = (ascii(), ascii(), ascii(), ascii());
    // push_bytes on "", [a1], [b1], [a1,a2], [b1,b2]
    let mut o0 = ManuallyDrop::new(pre.to_vec());
    let mut o1a = ManuallyDrop::new(pre.to_vec());
    let mut o1b = ManuallyDrop::new(pre.to_vec());
    let mut o2a = ManuallyDrop::new(pre.to_vec());
    let mut o2b = ManuallyDrop::new(pre.to_vec());
    push_bytes(&mut o0, &[]);
    push_bytes(&mut o1a, &[a1]);
    push_bytes(&mut o1b, &[b1]);
    push_bytes(&mut o2a, &[a1, a2]);
    push_bytes(&mut o2b, &[b1, b2]);
    assert!(
        keeps_prefix(&o0, &pre) && keeps_prefix(&o1a, &pre) && keeps_prefix(&o2a, &pre),
        "OBL:C09.cover.encoders_append_only"
    );
    assert!(diverge(&o0, &o1a), "OBL:C09.cover.encoders_prefix_free");
    assert!(diverge(&o0, &o2a), "OBL:C09.cover.encoders_prefix_free");
    assert!(diverge(&o1a, &o2a), "OBL:C09.cover.encoders_prefix_free");
    assert!(diverge(&o1b, &o2a), "OBL:C09.cover.encoders_prefix_free");
    if a1 != b1 {
        assert!(diverge(&o1a, &o1b), "OBL:C09.cover.encoders_prefix_free");
    }
    if a1 != b1 || a2 != b2 {
        assert!(diverge(&o2a, &o2b), "OBL:C09.cover.encoders_prefix_free");
    }
    // push_opt_str on absent, "", [a1], [b1], [a1,a2]
    let s0 = ManuallyDrop::new(String::new());
    let s1a = ManuallyDrop::new(mk_string(&[a1]));
    let s1b = ManuallyDrop::new(mk_string(&[b1]));
    let s2a = ManuallyDrop::new(mk_string(&[a1, a2]));
    let mut on = ManuallyDrop::new(pre.to_vec());
    let mut o0 = ManuallyDrop::new(pre.to_vec());
    let mut o1a = ManuallyDrop::new(pre.to_vec());
    let mut o1b = ManuallyDrop::new(pre.to_vec());
    let mut o2a = ManuallyDrop::new(pre.to_vec());
    push_opt_str(&mut on, None);
    push_opt_str(&mut o0, Some(s0.as_str()));
    push_opt_str(&mut o1a, Some(s1a.as_str()));
    push_opt_str(&mut o1b, Some(s1b.as_str()));
    push_opt_str(&mut o2a, Some(s2a.as_str()));
    assert!(
        keeps_prefix(&on, &pre) && keeps_prefix(&o0, &pre) && keeps_prefix(&o2a, &pre),
        "OBL:C09.cover.encoders_append_only"
    );
    assert!(diverge(&on, &o0), "OBL:C09.cover.encoders_prefix_free");
    assert!(diverge(&on, &o1a), "OBL:C09.cover.encoders_prefix_free");
    assert!(diverge(&on, &o2a), "OBL:C09.cover.encoders_prefix_free");
    assert!(diverge(&o0, &o1a), "OBL:C09.cover.encoders_prefix_free");
    assert!(diverge(&o0, &o2a), "OBL:C09.cover.encoders_prefix_free");
    assert!(diverge(&o1a, &o2a), "OBL:C09.cover.encoders_prefix_free");
    if a1 != b1 {
        assert!(diverge(&o1a, &o1b), "OBL:C09.cover.encoders_prefix_free");
    }
    kani::cover!(a1 != b1, "COVER:diff_bytes");
    kani::cover!(true, "COVER:reach");
}
