//! C08.gc — the sweep DECISIONS of `SidecarStore::collect_garbage`
//! (rs/anda_object_store/src/sidecar.rs): which payload objects become deletion
//! candidates, given the mark snapshot of the commit points. Two statement slices
//! from inside the async listing loops, copied verbatim on every run:
//!   G1 — a generation object `gen/<location>/<generation>` (timestamp `ts`);
//!   G2 — a legacy object `data/<location>`.
//! Contract from C08: "garbage collection … never removes a payload that a
//! committed key refers to": an object is a candidate ONLY IF the snapshot's commit
//! point for its key does not reference it, the commit point was decodable, and —
//! for generations — it is older than the run's floor (not an in-flight write).
//!
//! One recorded rewrite: `continue` (skip this listed object) -> `return` (leave the
//! per-object wrapper function) — the slices are the tails of their loop bodies.
//!
//! What the extraction drops (assumptions in units/C08.toml): how the snapshot is
//! built (async listing + decode), the two later guards before the actual delete
//! (in-flight registry, re-read of the commit point — async), and the delete.
//! `referenced` is a HashMap<Path, PayloadRef> in the real code; here a one-entry
//! lookup with the same `get` contract.
use super::*;
use core::mem::ManuallyDrop;

pub(super) struct Snapshot(Option<PayloadRef>);
impl Snapshot {
    fn get(&self, _location: &Path) -> Option<&PayloadRef> {
        self.0.as_ref()
    }
}

pub(super) struct Obj {
    location: Path,
}

type Candidates = Vec<(Path, Path, Option<String>)>;

/// Slice G1. Free variables: ts, floor_ms, referenced, location, generation, obj, candidates.
fn slice_generation_sweep(ts: u64, floor_ms: u64, referenced: &Snapshot, location: Path, generation: String, obj: Obj, candidates: &mut Candidates) {
/*@EXTRACT:generation_sweep@*/
}

/// Slice G2. Free variables: referenced, location, obj, candidates.
fn slice_legacy_sweep(referenced: &Snapshot, location: Path, obj: Obj, candidates: &mut Candidates) {
/*@EXTRACT:legacy_sweep@*/
}

fn snap(kind: u8) -> ManuallyDrop<Snapshot> {
    ManuallyDrop::new(Snapshot(match kind {
        0 => None,
        1 => Some(PayloadRef::Legacy),
        2 => Some(PayloadRef::Unknown),
        3 => Some(PayloadRef::Generation(String::from("g1"))),
        _ => Some(PayloadRef::Generation(String::from("g2"))),
    }))
}

/// G1 on the object `gen/k/g1` under every snapshot state of key `k`.
fn generation_block(kind: u8) {
    let ts: u64 = kani::any();
    let floor: u64 = kani::any();
    let s = snap(kind);
    let mut c: ManuallyDrop<Candidates> = ManuallyDrop::new(Vec::with_capacity(2));
    slice_generation_sweep(ts, floor, &s, Path::from("k"), String::from("g1"), Obj { location: Path::from("gen/k/g1") }, &mut c);
    let candidate = c.len() == 1;
    assert!(c.len() <= 1, "OBL:C08.gc.referenced_generation_never_a_candidate");
    // kind 3: the commit point references exactly this generation
    assert!(!(kind == 3 && candidate), "OBL:C08.gc.referenced_generation_never_a_candidate");
    // kind 2: the commit point could not be decoded — keep every payload of the key
    assert!(!(kind == 2 && candidate), "OBL:C08.gc.undecodable_commit_point_keeps_everything");
    // not older than the floor: an in-flight write (or clock skew)
    assert!(!(ts >= floor && candidate), "OBL:C08.gc.in_flight_generation_never_a_candidate");
    if candidate {
        assert!(matches!(&c[0].2, Some(g) if g.as_str() == "g1"), "OBL:C08.gc.candidate_names_the_object");
    }
    kani::cover!(candidate, "COVER:candidate");
    kani::cover!(!candidate, "COVER:kept");
    kani::cover!(true, "COVER:reach");
}

macro_rules! gen_harness {
    ($name:ident, $kind:expr) => {
        #[kani::proof]
        #[kani::unwind(8)]
        fn $name() {
            generation_block($kind);
        }
    };
}
gen_harness!(c08_gc_gen_unreferenced_key, 0);
gen_harness!(c08_gc_gen_key_is_legacy, 1);
gen_harness!(c08_gc_gen_key_undecodable, 2);
gen_harness!(c08_gc_gen_referenced, 3);
gen_harness!(c08_gc_gen_other_generation, 4);

/// G2 on the object `data/k` under every snapshot state of key `k`.
#[kani::proof]
#[kani::unwind(8)]
fn c08_gc_legacy() {
    let mut kind = 0u8;
    while kind < 5 {
        let s = snap(kind);
        let mut c: ManuallyDrop<Candidates> = ManuallyDrop::new(Vec::with_capacity(2));
        slice_legacy_sweep(&s, Path::from("k"), Obj { location: Path::from("data/k") }, &mut c);
        let candidate = c.len() == 1;
        assert!(!(kind == 1 && candidate), "OBL:C08.gc.referenced_legacy_never_a_candidate");
        assert!(!(kind == 2 && candidate), "OBL:C08.gc.undecodable_commit_point_keeps_everything");
        if candidate {
            assert!(c[0].2.is_none(), "OBL:C08.gc.candidate_names_the_object");
        }
        kind += 1;
    }
    kani::cover!(true, "COVER:reach");
}
