//! C07.stamp — "reads, heads and listings report one consistent size, token and
//! timestamp PER COMMIT": every commit of a key — put, multipart complete, and a
//! copy / rename onto it — writes a commit document carrying the commit time minted
//! for THAT commit, the size of what was committed, a token, and the fresh
//! generation. Added after seed C07c (a copy keeping its source's commit time)
//! slipped through.
//!
//! The three places in `MetaStore` that build a commit document (lib.rs: `put_opts`,
//! `copy_opts`, `MetaStoreUploader::complete` — the `Ok(Metadata { .. })` expression
//! inside each `update_meta_with` closure) are copied VERBATIM (every run) into
//! free functions over the real `Metadata` struct. Stand-ins: `new_commit_timestamp_ms`
//! (returns the value the harness minted), `derive_copy_e_tag` and
//! `BASE64_URL_SAFE.encode` (SHA3 / base64 are not executed: token freshness is
//! C07.cas territory), the payload (a length).
use super::*;
use core::mem::ManuallyDrop;

static mut VERIF_MINTED: u64 = 0;
fn new_commit_timestamp_ms() -> u64 {
    // SAFETY: one thread (Kani is sequential); by-value access
    unsafe { VERIF_MINTED }
}
fn derive_copy_e_tag(_generation: &str, _source_e_tag: Option<&str>) -> String {
    String::new()
}
struct VerifB64;
impl VerifB64 {
    fn encode(&self, _hash: [u8; 32]) -> String {
        String::from("t")
    }
}
const BASE64_URL_SAFE: VerifB64 = VerifB64;
struct VerifPayload(usize);
impl VerifPayload {
    fn content_length(&self) -> usize {
        self.0
    }
}

#[allow(unused_variables)]
fn verif_put_document(payload: &VerifPayload, hash: [u8; 32], generation: &String) -> Result<Metadata> {
/*@EXTRACT:put_document@*/
}

#[allow(unused_variables)]
fn verif_copy_document(src: &Metadata, generation: &String) -> Result<Metadata> {
/*@EXTRACT:copy_document@*/
}

#[allow(unused_variables)]
fn verif_complete_document(size: u64, e_tag: &Option<String>, generation: &String) -> Result<Metadata> {
/*@EXTRACT:complete_document@*/
}

fn mint() -> u64 {
    let now: u64 = kani::any();
    unsafe {
        VERIF_MINTED = now;
    }
    now
}

fn is_gen(doc: &Metadata) -> bool {
    matches!(&doc.generation, Some(g) if g.len() == 1 && g.as_bytes()[0] == b'g')
}

#[kani::proof]
#[kani::unwind(3)]
fn c07_stamp_put() {
    let now = mint();
    let len: usize = kani::any();
    let generation = ManuallyDrop::new(String::from("g"));
    let hash: [u8; 32] = kani::any();
    let r = ManuallyDrop::new(verif_put_document(&VerifPayload(len), hash, &generation));
    assert!(r.is_ok(), "OBL:C07.stamp.commit_document_is_stamped_with_its_own_commit");
    if let Ok(doc) = &*r {
        assert!(doc.committed_at_ms == Some(now), "OBL:C07.stamp.commit_document_is_stamped_with_its_own_commit");
        assert!(doc.size == len as u64, "OBL:C07.stamp.commit_document_reports_what_was_committed");
        assert!(is_gen(doc), "OBL:C07.stamp.commit_document_names_the_fresh_generation");
    }
    kani::cover!(true, "COVER:reach");
}

#[kani::proof]
#[kani::unwind(3)]
fn c07_stamp_copy() {
    let now = mint();
    // the source: any size, any (older, newer, absent) commit time of its own
    let src = ManuallyDrop::new(Metadata {
        size: kani::any(),
        e_tag: None,
        original_tag: None,
        original_version: None,
        generation: None,
        committed_at_ms: kani::any(),
    });
    let generation = ManuallyDrop::new(String::from("g"));
    let r = ManuallyDrop::new(verif_copy_document(&src, &generation));
    assert!(r.is_ok(), "OBL:C07.stamp.commit_document_is_stamped_with_its_own_commit");
    if let Ok(doc) = &*r {
        // a copy is a commit of the TARGET key: its own time, not the source's
        assert!(doc.committed_at_ms == Some(now), "OBL:C07.stamp.commit_document_is_stamped_with_its_own_commit");
        assert!(doc.size == src.size, "OBL:C07.stamp.commit_document_reports_what_was_committed");
        assert!(is_gen(doc), "OBL:C07.stamp.commit_document_names_the_fresh_generation");
    }
    kani::cover!(src.committed_at_ms.is_some_and(|t| t != now), "COVER:source_has_another_commit_time");
    kani::cover!(true, "COVER:reach");
}

#[kani::proof]
#[kani::unwind(3)]
fn c07_stamp_complete() {
    let now = mint();
    let size: u64 = kani::any();
    let e_tag = ManuallyDrop::new(Some(String::new()));
    let generation = ManuallyDrop::new(String::from("g"));
    let r = ManuallyDrop::new(verif_complete_document(size, &e_tag, &generation));
    assert!(r.is_ok(), "OBL:C07.stamp.commit_document_is_stamped_with_its_own_commit");
    if let Ok(doc) = &*r {
        assert!(doc.committed_at_ms == Some(now), "OBL:C07.stamp.commit_document_is_stamped_with_its_own_commit");
        assert!(doc.size == size, "OBL:C07.stamp.commit_document_reports_what_was_committed");
        assert!(is_gen(doc), "OBL:C07.stamp.commit_document_names_the_fresh_generation");
    }
    kani::cover!(true, "COVER:reach");
}
