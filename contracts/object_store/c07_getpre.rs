//! C07.getpre — `check_get_preconditions` (rs/anda_object_store/src/lib.rs) against
//! the REFERENCE evaluator `object_store::GetOptions::check_preconditions`: the
//! wrappers answer read preconditions themselves (against the logical e_tag and
//! commit timestamp), and C07 demands that every read "returns what a reference
//! in-memory object store returns for the same call". Relational contract, two
//! calls on the same inputs. Child module of the crate root.
use super::*;
use core::mem::ManuallyDrop;

pub(super) fn stub_format(_args: core::fmt::Arguments<'_>) -> String {
    String::new()
}

#[derive(PartialEq, Eq, Clone, Copy)]
enum Kind {
    Ok,
    Precondition,
    NotModified,
    Other,
}

fn kind(r: &Result<()>) -> Kind {
    match r {
        Ok(()) => Kind::Ok,
        Err(Error::Precondition { .. }) => Kind::Precondition,
        Err(Error::NotModified { .. }) => Kind::NotModified,
        Err(_) => Kind::Other,
    }
}

/// Instants from a strictly ordered 3-element pool: the evaluators only COMPARE
/// instants, so every order type (<, =, >) of every pair is covered.
fn any_instant() -> DateTime<Utc> {
    let pool = [
        DateTime::<Utc>::from_timestamp_millis(1_000).unwrap(),
        DateTime::<Utc>::from_timestamp_millis(2_000).unwrap(),
        DateTime::<Utc>::from_timestamp_millis(3_000).unwrap(),
    ];
    let i: usize = kani::any();
    kani::assume(i < 3);
    pool[i]
}

fn any_date_cond() -> Option<DateTime<Utc>> {
    if kani::any() { Some(any_instant()) } else { None }
}

fn mk_opts(if_match: &Option<String>, if_none_match: &Option<String>, ius: Option<DateTime<Utc>>, ims: Option<DateTime<Utc>>) -> ManuallyDrop<GetOptions> {
    ManuallyDrop::new(GetOptions {
        if_match: if_match.clone(),
        if_none_match: if_none_match.clone(),
        if_unmodified_since: ius,
        if_modified_since: ims,
        ..Default::default()
    })
}

fn any_tag(tag: bool) -> ManuallyDrop<Option<String>> {
    ManuallyDrop::new(if tag { Some(String::from(if kani::any() { "a" } else { "b" })) } else { None })
}

/// Logical timestamp known. `m` / `nm` = the if_match / if_none_match condition
/// (CONCRETE strings from a fixed pool: one symbolic byte through
/// `split(',').map(str::trim)` exhausted 12 GB), `tag` = whether the object has a
/// logical e_tag (1 symbolic byte over {a,b}); instants and date-condition presence symbolic.
fn block_ts(m: Option<&'static str>, nm: Option<&'static str>, tag: bool) {
    let location = ManuallyDrop::new(Path::from("k"));
    let e_tag = any_tag(tag);
    let lm = any_instant();
    let if_match = ManuallyDrop::new(m.map(String::from));
    let if_none_match = ManuallyDrop::new(nm.map(String::from));
    let ius = any_date_cond();
    let ims = any_date_cond();
    // the reference: object_store's own evaluator on the logical object
    let reference_opts = mk_opts(&if_match, &if_none_match, ius, ims);
    let meta = ManuallyDrop::new(ObjectMeta {
        location: Path::from("k"),
        last_modified: lm,
        size: 0,
        e_tag: (*e_tag).clone(),
        version: None,
    });
    let want = ManuallyDrop::new(reference_opts.check_preconditions(&meta));
    // the function under contract
    let mut opts = mk_opts(&if_match, &if_none_match, ius, ims);
    let got = ManuallyDrop::new(check_get_preconditions(&location, &mut opts, e_tag.as_deref(), Some(lm)));
    assert!(kind(&got) == kind(&want), "OBL:C07.getpre.agrees_with_reference");
    assert!(kind(&got) != Kind::Other, "OBL:C07.getpre.agrees_with_reference");
    if got.is_ok() {
        // everything was answered here: nothing may leak to the backend, which would
        // evaluate it against the payload object's own e_tag / timestamp
        assert!(
            opts.if_match.is_none()
                && opts.if_none_match.is_none()
                && opts.if_unmodified_since.is_none()
                && opts.if_modified_since.is_none(),
            "OBL:C07.getpre.answered_conditions_are_stripped"
        );
    }
    assert!(opts.range.is_none() && opts.version.is_none() && !opts.head, "OBL:C07.getpre.frame");
    kani::cover!(kind(&got) == Kind::Ok, "COVER:ok");
    kani::cover!(kind(&got) != Kind::Ok, "COVER:rejected");
    kani::cover!(true, "COVER:reach");
}

/// Logical timestamp unknown (pre-0.10 documents): ETag conditions are still
/// answered here with the same verdict as the reference restricted to them; date
/// conditions are left to the backend unless shadowed by an ETag condition.
fn block_nots(m: Option<&'static str>, nm: Option<&'static str>, tag: bool) {
    let location = ManuallyDrop::new(Path::from("k"));
    let e_tag = any_tag(tag);
    let if_match = ManuallyDrop::new(m.map(String::from));
    let if_none_match = ManuallyDrop::new(nm.map(String::from));
    let ius = any_date_cond();
    let ims = any_date_cond();
    let meta = ManuallyDrop::new(ObjectMeta {
        location: Path::from("k"),
        last_modified: any_instant(),
        size: 0,
        e_tag: (*e_tag).clone(),
        version: None,
    });
    let etag_only = mk_opts(&if_match, &if_none_match, None, None);
    let want = ManuallyDrop::new(etag_only.check_preconditions(&meta));
    let mut opts = mk_opts(&if_match, &if_none_match, ius, ims);
    let got = ManuallyDrop::new(check_get_preconditions(&location, &mut opts, e_tag.as_deref(), None));
    assert!(kind(&got) == kind(&want), "OBL:C07.getpre.etag_conditions_without_timestamp");
    if got.is_ok() {
        assert!(opts.if_match.is_none() && opts.if_none_match.is_none(), "OBL:C07.getpre.answered_conditions_are_stripped");
        assert!(
            opts.if_unmodified_since == if if_match.is_some() { None } else { ius },
            "OBL:C07.getpre.date_conditions_left_to_backend"
        );
        assert!(
            opts.if_modified_since == if if_none_match.is_some() { None } else { ims },
            "OBL:C07.getpre.date_conditions_left_to_backend"
        );
    }
    kani::cover!(got.is_ok(), "COVER:ok");
    kani::cover!(true, "COVER:reach");
}

macro_rules! getpre_harness {
    ($name:ident, $f:ident, $m:expr, $nm:expr, $tag:expr) => {
        #[kani::proof]
        #[kani::unwind(6)]
        #[kani::stub(alloc::fmt::format, stub_format)]
        fn $name() {
            $f($m, $nm, $tag);
        }
    };
}

getpre_harness!(c07_getpre_ts_none_none_tag, block_ts, None, None, true);
getpre_harness!(c07_getpre_ts_none_none_notag, block_ts, None, None, false);
getpre_harness!(c07_getpre_ts_m_star, block_ts, Some("*"), None, true);
getpre_harness!(c07_getpre_ts_m_star_notag, block_ts, Some("*"), None, false);
getpre_harness!(c07_getpre_ts_m_a, block_ts, Some("a"), None, true);
getpre_harness!(c07_getpre_ts_m_a_notag, block_ts, Some("a"), None, false);
getpre_harness!(c07_getpre_ts_m_list, block_ts, Some("c, a"), None, true);
getpre_harness!(c07_getpre_ts_nm_star, block_ts, None, Some("*"), true);
getpre_harness!(c07_getpre_ts_nm_a, block_ts, None, Some("a"), true);
getpre_harness!(c07_getpre_ts_nm_a_notag, block_ts, None, Some("a"), false);
getpre_harness!(c07_getpre_ts_nm_list, block_ts, None, Some("b ,c"), true);
getpre_harness!(c07_getpre_ts_m_a_nm_b, block_ts, Some("a"), Some("b"), true);
getpre_harness!(c07_getpre_ts_m_star_nm_a, block_ts, Some("*"), Some("a"), true);
getpre_harness!(c07_getpre_nots_none_none, block_nots, None, None, true);
getpre_harness!(c07_getpre_nots_m_a, block_nots, Some("a"), None, true);
getpre_harness!(c07_getpre_nots_nm_a, block_nots, None, Some("a"), true);
getpre_harness!(c07_getpre_nots_m_a_nm_b, block_nots, Some("a"), Some("b"), true);
