//! C07.chunk — `normalize_chunk_size` (rs/anda_object_store/src/encryption.rs):
//! the chunk size used by the range -> chunk-span arithmetic is never 0
//! (precondition `chunk_size >= 1` of C07.span) and in-range values are kept.
use super::*;

pub(super) fn post_positive(r: &u64) -> bool {
    *r >= 1
}

pub(super) fn post_preserved(chunk_size: u64, r: &u64) -> bool {
    chunk_size == 0 || chunk_size > usize::MAX as u64 || *r == chunk_size
}

#[kani::proof_for_contract(normalize_chunk_size)]
#[kani::unwind(2)]
fn c07_chunk_contract() {
    let c: u64 = kani::any();
    let r = normalize_chunk_size(c);
    assert!(post_positive(&r), "OBL:C07.chunk.positive");
    assert!(post_preserved(c, &r), "OBL:C07.chunk.preserved");
    kani::cover!(c == 0, "COVER:zero");
    kani::cover!(true, "COVER:reach");
}

/// `object_store::GetRange::as_range` (dependency, executed by CBMC rather than
/// assumed): whatever range kind the caller supplied, an accepted range satisfies
/// `start <= end <= size` — with the `range.start == range.end` branch that
/// precedes slice S1 in get_opts this is S1's precondition `start < end <= size`.
#[kani::proof]
#[kani::unwind(5)]
fn c07_as_range_within_object() {
    let size: u64 = kani::any();
    let (a, b): (u64, u64) = (kani::any(), kani::any());
    let rs = [GetRange::Bounded(a..b), GetRange::Offset(a), GetRange::Suffix(a)];
    let mut k = 0;
    while k < 3 {
        if let Ok(r) = rs[k].as_range(size) {
            assert!(r.start <= r.end && r.end <= size, "OBL:C07.chunk.as_range_within_object");
            kani::cover!(r.start < r.end, "COVER:nonempty");
        }
        k += 1;
    }
    kani::cover!(true, "COVER:reach");
}

/// `EncryptedStore::read_chunk_size` — the chunk size the span arithmetic actually
/// uses — copied verbatim (every run) into a view struct holding the one field it
/// reads besides the metadata. With a store configured with chunk_size >= 1
/// (`with_chunk_size` normalises, see the builder) the result is >= 1 for EVERY
/// metadata value, including a tampered `chunk_size: Some(0)`: the precondition
/// `chunk_size >= 1` of C07.span / C09.span.
pub(super) struct VerifChunkView {
    chunk_size: u64,
}

#[allow(dead_code)]
impl VerifChunkView {
/*@EXTRACT:read_chunk_size@*/
}

pub(super) struct Metadata {
    pub chunk_size: Option<u64>,
}

#[kani::proof]
#[kani::unwind(2)]
fn c07_read_chunk_size_positive() {
    let configured: u64 = kani::any();
    kani::assume(configured >= 1);
    let v = VerifChunkView { chunk_size: configured };
    let m = Metadata { chunk_size: kani::any() };
    let r = v.read_chunk_size(&m);
    assert!(r >= 1, "OBL:C07.chunk.read_chunk_size_positive");
    assert!(r == match m.chunk_size { Some(c) if c >= 1 && c <= usize::MAX as u64 => c, Some(c) if c > usize::MAX as u64 => usize::MAX as u64, _ => configured }, "OBL:C07.chunk.read_chunk_size_prefers_the_recorded_size");
    kani::cover!(m.chunk_size == Some(0), "COVER:zero_recorded");
    kani::cover!(true, "COVER:reach");
}
