//! C07.stampenc — the EncryptedStore half of C07.stamp ("one consistent size, token
//! and timestamp PER COMMIT"): the three places in encryption.rs that finish a
//! commit document (`put_opts`, `copy_opts`, `EncryptedStoreUploader::complete`)
//! stamp it with the commit time minted for THAT commit — and do so BEFORE sealing,
//! because the seal authenticates the timestamp (a document stamped after sealing
//! would fail verification on every read). Statement slices copied VERBATIM (every
//! run) over the real `Metadata` struct. Stand-ins: `new_commit_timestamp_ms`
//! (returns the value the harness minted), `seal_metadata` / `self.seal_metadata`
//! (records the timestamp it was handed; sealing itself is C09.seal), the cipher.
use super::*;
use core::mem::ManuallyDrop;

static mut VERIF_MINTED: u64 = 0;
static mut VERIF_SEALED_WITH: Option<u64> = None;
static mut VERIF_SEALS: u8 = 0;
fn new_commit_timestamp_ms() -> u64 {
    // SAFETY: one thread (Kani is sequential); by-value access
    unsafe { VERIF_MINTED }
}
struct VerifCipher;
fn seal_metadata(_cipher: &VerifCipher, _location: &Path, meta: &mut Metadata) -> Result<()> {
    unsafe {
        VERIF_SEALED_WITH = meta.committed_at_ms;
        VERIF_SEALS += 1;
    }
    Ok(())
}
struct VerifEncView;
impl VerifEncView {
    fn seal_metadata(&self, location: &Path, meta: &mut Metadata) -> Result<()> {
        seal_metadata(&VerifCipher, location, meta)
    }

    #[allow(unused_variables, unused_mut)]
    fn verif_put_tail(&self, location: &Path, mut meta: Metadata) -> Result<Metadata> {
/*@EXTRACT:put_tail@*/
    }
}

#[allow(unused_variables, unused_mut)]
fn verif_copy_tail(cipher: &VerifCipher, to: &Path, mut meta: Metadata) -> Result<Metadata> {
/*@EXTRACT:copy_tail@*/
}

#[allow(unused_variables, unused_mut)]
fn verif_complete_tail(
    cipher: &VerifCipher,
    location: &Path,
    size: u64,
    e_tag: &Option<String>,
    aes_nonce: [u8; 12],
    aes_tags: Vec<ByteArray<16>>,
    chunk_size: u64,
    generation: &String,
) -> Result<Metadata> {
/*@EXTRACT:complete_tail@*/
}

fn mint() -> u64 {
    let now: u64 = kani::any();
    unsafe {
        VERIF_MINTED = now;
    }
    now
}

/// A document as the code before the slice leaves it: any size, any commit time of
/// its own (a copy starts from a clone of the SOURCE's document).
fn document() -> Metadata {
    Metadata {
        size: kani::any(),
        e_tag: None,
        original_tag: None,
        original_version: None,
        aes_nonce: [0u8; 12].into(),
        aes_tags: Vec::new(),
        chunk_size: None,
        chunk_aad_version: None,
        auth_nonce: None,
        auth_tag: None,
        generation: None,
        committed_at_ms: kani::any(),
    }
}

fn check(r: &Result<Metadata>, now: u64) {
    assert!(r.is_ok(), "OBL:C07.stampenc.commit_document_is_stamped_with_its_own_commit");
    if let Ok(doc) = r {
        assert!(doc.committed_at_ms == Some(now), "OBL:C07.stampenc.commit_document_is_stamped_with_its_own_commit");
        // sealed exactly once, over the stamped document
        assert!(unsafe { VERIF_SEALS } == 1 && unsafe { VERIF_SEALED_WITH } == Some(now), "OBL:C07.stampenc.stamped_before_sealing");
    }
}

#[kani::proof]
#[kani::unwind(3)]
fn c07_stampenc_put() {
    let now = mint();
    let loc = ManuallyDrop::new(Path::default());
    let size_before: u64;
    let doc = document();
    size_before = doc.size;
    let r = ManuallyDrop::new(VerifEncView.verif_put_tail(&loc, doc));
    check(&r, now);
    if let Ok(d) = &*r {
        assert!(d.size == size_before, "OBL:C07.stampenc.commit_document_reports_what_was_committed");
    }
    kani::cover!(true, "COVER:reach");
}

#[kani::proof]
#[kani::unwind(3)]
fn c07_stampenc_copy() {
    let now = mint();
    let loc = ManuallyDrop::new(Path::default());
    let doc = document();
    let (size_before, src_time) = (doc.size, doc.committed_at_ms);
    let r = ManuallyDrop::new(verif_copy_tail(&VerifCipher, &loc, doc));
    check(&r, now);
    if let Ok(d) = &*r {
        assert!(d.size == size_before, "OBL:C07.stampenc.commit_document_reports_what_was_committed");
    }
    kani::cover!(src_time.is_some_and(|t| t != now), "COVER:source_has_another_commit_time");
    kani::cover!(true, "COVER:reach");
}

#[kani::proof]
#[kani::unwind(3)]
fn c07_stampenc_complete() {
    let now = mint();
    let loc = ManuallyDrop::new(Path::default());
    let size: u64 = kani::any();
    let e_tag = ManuallyDrop::new(None);
    let generation = ManuallyDrop::new(String::from("g"));
    let r = ManuallyDrop::new(verif_complete_tail(&VerifCipher, &loc, size, &e_tag, [0; 12], Vec::new(), 4, &generation));
    check(&r, now);
    if let Ok(d) = &*r {
        assert!(d.size == size, "OBL:C07.stampenc.commit_document_reports_what_was_committed");
    }
    kani::cover!(true, "COVER:reach");
}
