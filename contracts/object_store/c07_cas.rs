//! C07.cas / C07.chunk — contracts of `check_update_version` (the compare-and-swap
//! decision of conditional updates) in rs/anda_object_store/src/lib.rs.
//! Child module of the crate root. Written from the property: "a conditional
//! update succeeds if and only if its token is the one returned by the latest
//! commit of that key".
use super::*;
use core::mem::ManuallyDrop;

pub(super) fn stub_format(_args: core::fmt::Arguments<'_>) -> String {
    String::new()
}

/// A token of 0..=2 bytes over the alphabet {a, b} (9 distinct values incl. "").
fn any_token(len: usize) -> String {
    let mut s = String::with_capacity(4);
    let mut i = 0;
    while i < len {
        s.push(if kani::any() { 'a' } else { 'b' });
        i += 1;
    }
    s
}

fn same(a: &Option<String>, b: &Option<String>) -> bool {
    match (a, b) {
        (None, None) => true,
        (Some(x), Some(y)) => {
            let (x, y) = (x.as_bytes(), y.as_bytes());
            if x.len() != y.len() {
                return false;
            }
            let mut i = 0;
            while i < x.len() {
                if x[i] != y[i] {
                    return false;
                }
                i += 1;
            }
            true
        }
        _ => false,
    }
}

fn block(cur_tag: Option<String>, cur_gen: Option<String>, upd_tag: Option<String>, upd_ver: Option<String>) {
    let location = ManuallyDrop::new(Path::from("k"));
    let update = ManuallyDrop::new(UpdateVersion { e_tag: upd_tag, version: upd_ver });
    let cur_tag = ManuallyDrop::new(cur_tag);
    let cur_gen = ManuallyDrop::new(cur_gen);
    let r = ManuallyDrop::new(check_update_version(&location, &cur_tag, &cur_gen, &update));
    // the property's sentence, as a specification independent of the body
    let token_matches = update.e_tag.is_some() && same(&cur_tag, &update.e_tag);
    let version_ok = update.version.is_none() || same(&cur_gen, &update.version);
    assert!(r.is_ok() == (token_matches && version_ok), "OBL:C07.cas.succeeds_iff_latest_token");
    if let Err(e) = &*r {
        assert!(matches!(e, Error::Precondition { .. }), "OBL:C07.cas.rejection_is_precondition");
    }
    kani::cover!(r.is_ok(), "COVER:ok");
    kani::cover!(r.is_err(), "COVER:err");
}

// Presence and length of the four optional strings are enumerated concretely
// (rule 1), one small harness per decision path so they run in parallel; inside a
// block the bytes are symbolic over {a,b}.

macro_rules! cas_harness {
    ($name:ident, $ct:expr, $cg:expr, $ut:expr, $uv:expr) => {
        #[kani::proof]
        #[kani::unwind(5)]
        #[kani::stub(alloc::fmt::format, stub_format)]
        fn $name() {
            block($ct, $cg, $ut, $uv);
            kani::cover!(true, "COVER:reach");
        }
    };
}

fn t(len: usize) -> Option<String> {
    Some(any_token(len))
}

// no token presented: never succeeds, whatever is current
cas_harness!(c07_cas_missing_token, t(2), t(1), None, None);
cas_harness!(c07_cas_missing_token_with_version, t(1), t(2), None, t(2));
// token presented but object has no current token
cas_harness!(c07_cas_no_current_token, None, None, t(1), None);
// token vs current token, same length (equal or different bytes), no version
cas_harness!(c07_cas_token_len1, t(1), t(1), t(1), None);
cas_harness!(c07_cas_token_len2, t(2), None, t(2), None);
// different lengths, empty tokens
cas_harness!(c07_cas_token_len_mismatch_a, t(2), None, t(1), None);
cas_harness!(c07_cas_token_len_mismatch_b, t(1), None, t(2), None);
cas_harness!(c07_cas_token_empty, t(0), None, t(0), None);
// version precondition present: must equal the current generation
cas_harness!(c07_cas_version_no_generation, t(1), None, t(1), t(1));
cas_harness!(c07_cas_version_len2, t(2), t(2), t(2), t(2));
cas_harness!(c07_cas_version_len_mismatch, t(1), t(2), t(1), t(1));
// thorough tier: 3-byte tokens
cas_harness!(c07_cas_token_len3, t(3), None, t(3), None);
cas_harness!(c07_cas_version_len3, t(3), t(3), t(3), t(3));
