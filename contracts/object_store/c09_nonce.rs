//! C09.nonce — contract of `derive_gcm_nonce` (rs/anda_object_store/src/encryption.rs).
//!
//! Child module of `encryption` (injected under cfg(kani) into the scratch copy), so
//! the private fn is visible unchanged. Postconditions come from the property
//! sentence "no encryption nonce is used for two different chunks under one key"
//! (for the chunks of ONE object: the per-chunk nonce is injective in the chunk
//! index) and from the documented layout "the first 4 bytes of `base` are kept as a
//! random salt" (what separates objects from each other).
use super::*;

/// Documented: bytes 0..4 of the derived nonce are the object's salt, unchanged,
/// for every chunk index.
pub(super) fn post_salt_kept(base: &[u8; 12], r: &[u8; 12]) -> bool {
    r[0] == base[0] && r[1] == base[1] && r[2] == base[2] && r[3] == base[3]
}

/// Attribute form: discharges `kani::ensures(post_salt_kept)` attached to the real
/// `derive_gcm_nonce` over every base nonce and every u64 chunk index. Loop-free.
#[kani::proof_for_contract(derive_gcm_nonce)]
#[kani::unwind(13)]
fn c09_nonce_contract() {
    let base: [u8; 12] = kani::any();
    let idx: u64 = kani::any();
    let r = derive_gcm_nonce(&base, idx);
    // Explicit restatement: decisive under native playback, redundant under CBMC.
    assert!(post_salt_kept(&base, &r), "OBL:C09.nonce.salt_kept");
    kani::cover!(r[4] != base[4], "COVER:counter_moves");
    kani::cover!(true, "COVER:reach");
}

/// Two-call (relational) form: under one base nonce, two chunk indices yield the
/// same GCM nonce iff they are the same index — all 2^96 bases, all u64 x u64
/// index pairs (including wrap-around of the counter). Loop-free: complete.
#[kani::proof]
#[kani::unwind(13)]
fn c09_nonce_injective() {
    let base: [u8; 12] = kani::any();
    let i: u64 = kani::any();
    let j: u64 = kani::any();
    let a = derive_gcm_nonce(&base, i);
    let b = derive_gcm_nonce(&base, j);
    assert!((a == b) == (i == j), "OBL:C09.nonce.injective");
    // index 0 is the base itself only as far as injectivity needs: nothing claimed.
    kani::cover!(i != j && a[4] == b[4], "COVER:low_byte_collides");
    kani::cover!(i == j, "COVER:same_index");
    kani::cover!(true, "COVER:reach");
}
