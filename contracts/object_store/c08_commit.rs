//! C08.commit — the write protocol of the sidecar wrappers
//! (rs/anda_object_store/src/sidecar.rs): "wrapper writes are atomic under
//! crashes". A crash can only cut the sequence of backend operations one call
//! issues, so atomicity is an ORDERING fact of one task: the commit point (the
//! `meta/` document) is written only after the payload it names is durable, the
//! payload it replaces is deleted only after the commit point switched, and a
//! delete removes the commit point before the payload.
//!
//! `SidecarStore::{update_meta_with, delete_object, best_effort_delete}` are copied
//! VERBATIM — signature and body, on every run — into `impl VerifSidecar`, a view
//! struct whose fields and helper methods are stand-ins with ASSUMED contracts;
//! `.await`s stay as they are and are driven by a poll loop of our own. Every
//! stand-in backend operation stamps a ghost clock, so the harness can read the
//! order in which the verbatim code issued them, for every combination of
//! outcomes (current document present / absent / corrupt / unreadable, create or
//! overwrite, payload write ok / failed, commit ok / lost the create race / failed).
//!
//! Stand-ins: `Path` (an id), `PutOptions` / `PutMode`, `to_writer` (always Ok),
//! `meta_cache.entry(k).and_try_compute_with(f)` (moka: ASSUMED to run `f` exactly
//! once and to hand back what it returned), `fetch_meta_bytes`, `decode_meta`,
//! `payload_path`, `meta_path`, `store.put_opts`, `store.delete`.
//! Dropped: the cache itself, per-key serialisation, concurrency.
use super::*;
use core::cell::Cell;
use core::future::Future;
use core::mem::ManuallyDrop;
use core::task::{Context, Poll, Waker};
// (stand-in futures here are ready at the first poll: with a suspension in each,
// the five nested state machines x symbolic outcomes ran CBMC out of memory)

fn block_on<T>(fut: impl Future<Output = T>) -> T {
    let mut fut = core::pin::pin!(fut);
    let mut cx = Context::from_waker(Waker::noop());
    loop {
        if let Poll::Ready(v) = fut.as_mut().poll(&mut cx) {
            return v;
        }
    }
}

// ---- shadows of the names the verbatim bodies mention ---------------------------

/// `log::warn!(..)` expands to nothing here (the real macro formats its arguments
/// through `dyn Log` / core::fmt when a logger is enabled).
mod log {
    macro_rules! verif_log_nop {
        ($($t:tt)*) => {
            ()
        };
    }
    pub(crate) use verif_log_nop as warn;
}

/// A backend path, identified by a number: 0..=99 payload of generation n,
/// META_PATH the commit point, KEY the logical key.
#[derive(Clone, Copy, PartialEq, Eq, Debug)]
struct Path(u8);
impl core::fmt::Display for Path {
    fn fmt(&self, _f: &mut core::fmt::Formatter<'_>) -> core::fmt::Result {
        Ok(())
    }
}
impl Path {
    /// (inherent, so `location.to_string()` does not go through core::fmt)
    fn to_string(&self) -> VerifStr {
        VerifStr
    }
}

/// Shadow of object_store::Error with the three variants the bodies mention; the
/// `source` is a unit instead of a `Box<dyn Error>` (dropping a trait object makes
/// CBMC consider every `Error` impl of the crate graph: 2 x 15 min without verdict).
struct VerifStr;
struct VerifSource;
impl From<&'static str> for VerifSource {
    fn from(_: &'static str) -> Self {
        VerifSource
    }
}
impl From<String> for VerifSource {
    fn from(s: String) -> Self {
        core::mem::forget(s);
        VerifSource
    }
}
#[allow(dead_code)]
enum Error {
    NotFound { path: VerifStr, source: VerifSource },
    AlreadyExists { path: VerifStr, source: VerifSource },
    Generic { store: &'static str, source: VerifSource },
}
impl core::fmt::Display for Error {
    fn fmt(&self, _f: &mut core::fmt::Formatter<'_>) -> core::fmt::Result {
        Ok(())
    }
}
type Result<T, E = Error> = core::result::Result<T, E>;
const KEY: Path = Path(250);
const META_PATH: Path = Path(200);

#[derive(Clone, Copy, PartialEq, Eq, Default)]
enum PutMode {
    #[default]
    Overwrite,
    Create,
}
#[derive(Default)]
struct PutOptions {
    mode: PutMode,
    #[allow(dead_code)]
    rest: (),
}
struct VerifPayload;
impl From<Vec<u8>> for VerifPayload {
    fn from(v: Vec<u8>) -> Self {
        core::mem::forget(v);
        VerifPayload
    }
}
#[derive(Debug)]
struct VerifSerError;
fn to_writer<T>(_val: &T, _out: &mut Vec<u8>) -> core::result::Result<(), VerifSerError> {
    Ok(())
}

#[derive(Clone, Copy)]
struct VerifMeta {
    generation: u8,
}
impl VerifMeta {
    const STORE_NAME: &'static str = "verif";
    fn generation(&self) -> u8 {
        self.generation
    }
}
type M = VerifMeta;

/// Shadow of std::sync::Arc (a plain box-less wrapper: no heap, no atomics).
#[derive(Clone)]
struct Arc<T>(T);
impl<T> Arc<T> {
    fn new(v: T) -> Self {
        Arc(v)
    }
}
impl<T> core::ops::Deref for Arc<T> {
    type Target = T;
    fn deref(&self) -> &T {
        &self.0
    }
}

// ---- ghost state -----------------------------------------------------------------

/// What the backend saw, in order (0 = never happened).
#[derive(Default)]
struct Ghost {
    clock: Cell<u8>,
    t_payload_written: Cell<u8>,
    t_commit_put: Cell<u8>,
    commit_put_ok: Cell<bool>,
    commit_put_mode_create: Cell<bool>,
    t_commit_deleted: Cell<u8>,
    t_payload_deleted: Cell<u8>,
    payload_deleted: Cell<u8>,
    deletes: Cell<u8>,
}
impl Ghost {
    fn tick(&self) -> u8 {
        let t = self.clock.get() + 1;
        self.clock.set(t);
        t
    }
}

/// Outcomes chosen by the harness.
#[derive(Clone, Copy)]
struct Knobs {
    /// 0 current document readable, 1 NotFound, 2 other backend error
    fetch: u8,
    decodes: bool,
    cur_generation: u8,
    /// 0 Ok, 1 AlreadyExists (lost a create race), 2 other backend error
    commit: u8,
    /// 0 Ok, 1 NotFound, 2 other backend error
    delete: u8,
}

fn not_found() -> Error {
    Error::NotFound { path: VerifStr, source: "verif".into() }
}
fn backend_error() -> Error {
    Error::Generic { store: "verif", source: "verif".into() }
}

struct VerifBytes;
struct VerifDecodeError;
impl core::fmt::Display for VerifDecodeError {
    fn fmt(&self, _f: &mut core::fmt::Formatter<'_>) -> core::fmt::Result {
        Ok(())
    }
}

struct VerifStore<'g> {
    g: &'g Ghost,
    k: Knobs,
}
struct VerifPutResult;
impl VerifStore<'_> {
    async fn put_opts(&self, path: &Path, _payload: VerifPayload, opts: PutOptions) -> Result<VerifPutResult> {
        // the only put the verbatim code issues itself is the commit point
        assert!(*path == META_PATH);
        self.g.t_commit_put.set(self.g.tick());
        self.g.commit_put_mode_create.set(opts.mode == PutMode::Create);
        match self.k.commit {
            0 => {
                self.g.commit_put_ok.set(true);
                Ok(VerifPutResult)
            }
            1 => Err(Error::AlreadyExists { path: VerifStr, source: "verif".into() }),
            _ => Err(backend_error()),
        }
    }
    async fn delete(&self, path: &Path) -> Result<()> {
        let t = self.g.tick();
        self.g.deletes.set(self.g.deletes.get() + 1);
        if *path == META_PATH {
            self.g.t_commit_deleted.set(t);
        } else {
            self.g.t_payload_deleted.set(t);
            self.g.payload_deleted.set(path.0);
        }
        match self.k.delete {
            0 => Ok(()),
            1 => Err(not_found()),
            _ => Err(backend_error()),
        }
    }
}

struct VerifEntry(Arc<M>);
impl VerifEntry {
    fn value(&self) -> &Arc<M> {
        &self.0
    }
}
struct VerifCompResult(Option<VerifEntry>);
impl VerifCompResult {
    fn unwrap(self) -> VerifEntry {
        self.0.unwrap()
    }
}
struct VerifCache;
struct VerifEntrySelector;
impl VerifCache {
    fn entry(&self, _key: Path) -> VerifEntrySelector {
        VerifEntrySelector
    }
}
impl VerifEntrySelector {
    /// ASSUMED contract of moka's `and_try_compute_with`: runs `f` exactly once and
    /// reports what it decided; an `Err` is handed back unchanged.
    async fn and_try_compute_with<F, Fut, E>(self, f: F) -> core::result::Result<VerifCompResult, E>
    where
        F: FnOnce(Option<VerifEntry>) -> Fut,
        Fut: Future<Output = core::result::Result<Op<Arc<M>>, E>>,
    {
        let op = f(None).await?;
        Ok(match op {
            Op::Put(v) => VerifCompResult(Some(VerifEntry(v))),
            _ => VerifCompResult(None),
        })
    }
}

struct VerifSidecar<'g> {
    meta_cache: VerifCache,
    store: VerifStore<'g>,
    k: Knobs,
}

#[allow(dead_code, unused_variables)]
impl VerifSidecar<'_> {
    async fn fetch_meta_bytes(&self, _location: &Path) -> Result<VerifBytes> {
        match self.k.fetch {
            0 => Ok(VerifBytes),
            1 => Err(not_found()),
            _ => Err(backend_error()),
        }
    }
    fn decode_meta(&self, _location: &Path, _data: &VerifBytes) -> core::result::Result<M, VerifDecodeError> {
        if self.k.decodes { Ok(VerifMeta { generation: self.k.cur_generation }) } else { Err(VerifDecodeError) }
    }
    fn payload_path(&self, _location: &Path, generation: u8) -> Path {
        Path(generation)
    }
    fn meta_path(&self, _location: &Path) -> Path {
        META_PATH
    }

/*@EXTRACT:update_meta_with@*/

/*@EXTRACT:best_effort_delete@*/

/*@EXTRACT:delete_object@*/
}

fn sidecar(g: &Ghost, k: Knobs) -> ManuallyDrop<VerifSidecar<'_>> {
    ManuallyDrop::new(VerifSidecar { meta_cache: VerifCache, store: VerifStore { g, k }, k })
}

fn knobs() -> Knobs {
    let k = Knobs {
        fetch: kani::any(),
        decodes: kani::any(),
        cur_generation: kani::any(),
        commit: kani::any(),
        delete: kani::any(),
    };
    kani::assume(k.fetch <= 2 && k.commit <= 2 && k.delete <= 2 && k.cur_generation < 100);
    k
}

/// put / put_multipart.complete / copy / rename all commit through
/// `update_meta_with(location, create, f)`, where `f` writes the payload of a
/// fresh generation and returns the document naming it.
#[kani::proof]
#[kani::unwind(3)]
fn c08_commit_update_meta_with() {
    let g = Ghost::default();
    let k = knobs();
    let create: bool = kani::any();
    let payload_write_fails: bool = kani::any();
    let new_generation: u8 = kani::any();
    kani::assume(new_generation < 100);
    let s = sidecar(&g, k);
    let g2 = &g;
    // (a closure returning a future, not an `async` closure: kani-compiler 0.68
    // cannot lower async closures; both implement AsyncFnOnce)
    let f = move |_cur: Option<&M>| {
        async move {
                if payload_write_fails {
                return Err(backend_error());
            }
            g2.t_payload_written.set(g2.tick());
            Ok(VerifMeta { generation: new_generation })
        }
    };
    let r = ManuallyDrop::new(block_on(s.update_meta_with(&KEY, create, f)));
    let (t_pay, t_commit, t_del) = (g.t_payload_written.get(), g.t_commit_put.get(), g.t_payload_deleted.get());
    // the commit point is written only after the payload it names is durable
    assert!(t_commit == 0 || (t_pay != 0 && t_pay < t_commit), "OBL:C08.commit.pointer_switch_only_after_payload_is_durable");
    // success is reported only for a committed pointer switch
    assert!(r.is_err() || g.commit_put_ok.get(), "OBL:C08.commit.ok_means_committed");
    // nothing is ever deleted before the commit point switched, and never the
    // payload the new commit point names; the commit point itself is never deleted
    assert!(t_del == 0 || (g.commit_put_ok.get() && t_commit < t_del), "OBL:C08.commit.replaced_payload_deleted_only_after_commit");
    assert!(t_del == 0 || g.payload_deleted.get() != new_generation, "OBL:C08.commit.committed_payload_is_never_deleted");
    assert!(g.t_commit_deleted.get() == 0, "OBL:C08.commit.committed_payload_is_never_deleted");
    // only the payload the replaced document named may go
    assert!(t_del == 0 || (k.fetch == 0 && k.decodes && g.payload_deleted.get() == k.cur_generation), "OBL:C08.commit.only_the_replaced_payload_is_deleted");
    // create never replaces a committed object: refused without touching the
    // backend when one is readable, arbitrated by the backend (PutMode::Create)
    // when none was found
    if create && k.fetch == 0 && k.decodes {
        assert!(r.is_err() && t_pay == 0 && t_commit == 0 && t_del == 0, "OBL:C08.commit.create_never_replaces_a_committed_object");
    }
    if create && k.fetch == 1 && t_commit != 0 {
        assert!(g.commit_put_mode_create.get(), "OBL:C08.commit.create_never_replaces_a_committed_object");
    }
    kani::cover!(r.is_ok() && t_del != 0, "COVER:replaced_and_reclaimed");
    kani::cover!(r.is_ok() && t_del == 0, "COVER:committed_nothing_to_reclaim");
    kani::cover!(r.is_err() && t_pay != 0, "COVER:payload_written_commit_failed");
    kani::cover!(create && r.is_ok(), "COVER:created");
    kani::cover!(true, "COVER:reach");
}

/// delete: the commit point goes first; the payload only after it is gone.
#[kani::proof]
#[kani::unwind(3)]
fn c08_commit_delete_object() {
    let g = Ghost::default();
    let k = knobs();
    let s = sidecar(&g, k);
    let r = ManuallyDrop::new(block_on(s.delete_object(&KEY)));
    let (t_cd, t_pd) = (g.t_commit_deleted.get(), g.t_payload_deleted.get());
    // a payload is removed only after its commit point is gone (never the other
    // way round: a crash in between must not leave a commit point naming nothing)
    assert!(t_pd == 0 || (t_cd != 0 && t_cd < t_pd), "OBL:C08.commit.delete_removes_commit_point_first");
    // Ok means the commit point is gone
    assert!(r.is_err() || (t_cd != 0 && k.delete != 2), "OBL:C08.commit.delete_ok_means_commit_point_gone");
    // only the payload the deleted document named may go
    assert!(t_pd == 0 || (k.fetch == 0 && k.decodes && g.payload_deleted.get() == k.cur_generation), "OBL:C08.commit.only_the_replaced_payload_is_deleted");
    // nothing is written
    assert!(g.t_commit_put.get() == 0, "OBL:C08.commit.delete_removes_commit_point_first");
    kani::cover!(r.is_ok() && t_pd != 0, "COVER:deleted_with_payload");
    kani::cover!(r.is_ok() && t_pd == 0, "COVER:deleted_corrupt_commit_point");
    kani::cover!(r.is_err(), "COVER:refused");
    kani::cover!(true, "COVER:reach");
}
