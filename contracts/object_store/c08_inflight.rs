//! C08.inflight — "never reclaim a generation this process is still writing": the
//! three places that mint a generation, build its payload path and register it in
//! the garbage collector's in-flight registry (rs/anda_object_store/src/sidecar.rs
//! `copy_payload`, lib.rs `MetaStore::put_multipart_opts`, encryption.rs
//! `EncryptedStore::put_multipart_opts`) — statement slices copied verbatim on
//! every run into a view struct whose `generation_path` and `track_in_flight` are
//! stand-ins that record their arguments. Added after seed C08a
//! (registration under the SOURCE location of a copy) slipped through.
//!
//! Contract: the (location, generation) pair registered in-flight is exactly the
//! pair the written payload path is built from (and names the key being written) —
//! because the pair `collect_garbage` looks up before deleting an object is the one
//! its path decodes to (`split_generation`, the inverse of `generation_path`).
//!
//! Stand-ins (assumptions in units/C08.toml): `track_in_flight` records the pair in
//! a Vec (the real one inserts it into a Mutex<HashSet> and returns an RAII guard);
//! `new_generation` returns a fixed well-formed identifier (time + rand are trusted).
use super::*;
use core::cell::RefCell;
use core::mem::ManuallyDrop;

pub(super) struct VerifSidecarView {
    built: RefCell<Vec<(Path, String)>>,
    registered: RefCell<Vec<(Path, String)>>,
}

pub(super) struct VerifGuard;

fn new_generation() -> String {
    String::from("0000018f3c2a1b00-0badcafe")
}

#[allow(dead_code)]
impl VerifSidecarView {
    /// Stand-in: records the (location, generation) the payload path is built from.
    /// (The real `generation_path` / `split_generation` are inverse by construction —
    /// `gen/<location>/<generation>`; executing object_store's Path arithmetic under
    /// CBMC did not finish: 3 harnesses x 15 min on concrete two-segment paths.)
    fn generation_path(&self, location: &Path, generation: &str) -> Path {
        self.built.borrow_mut().push((location.clone(), generation.to_string()));
        Path::from("p")
    }

    fn track_in_flight(&self, location: &Path, generation: &str) -> VerifGuard {
        self.registered.borrow_mut().push((location.clone(), generation.to_string()));
        VerifGuard
    }

    /// Slice of `copy_payload`. Free variables: self, to (and `from`, unused by a correct slice).
    fn verif_copy_slice(&self, from: &Path, to: &Path) -> Path {
/*@EXTRACT:copy_registration@*/
        core::mem::forget(in_flight);
        dst_path
    }
}

pub(super) struct VerifWrapperView {
    inner: VerifSidecarView,
}

#[allow(dead_code)]
impl VerifWrapperView {
    /// Slice of `MetaStore::put_multipart_opts`. Free variables: self.inner, location.
    fn verif_meta_multipart_slice(&self, location: &Path) -> Path {
/*@EXTRACT:meta_multipart_registration@*/
        core::mem::forget(in_flight);
        gen_path
    }

    /// Slice of `EncryptedStore::put_multipart_opts`. Free variables: self.inner, location.
    fn verif_enc_multipart_slice(&self, location: &Path) -> Path {
/*@EXTRACT:enc_multipart_registration@*/
        core::mem::forget(in_flight);
        gen_path
    }
}

fn view() -> VerifSidecarView {
    VerifSidecarView { built: RefCell::new(Vec::with_capacity(2)), registered: RefCell::new(Vec::with_capacity(2)) }
}

fn same_path(a: &Path, b: &Path) -> bool {
    a.as_ref() == b.as_ref()
}

fn registration_matches_written_object(v: &VerifSidecarView, _written: &Path, key: &Path) -> bool {
    let reg = v.registered.borrow();
    let built = v.built.borrow();
    reg.len() == 1
        && built.len() == 1
        && same_path(&reg[0].0, &built[0].0)
        && reg[0].1 == built[0].1
        && same_path(&reg[0].0, key)
}

#[kani::proof]
#[kani::unwind(28)]
fn c08_inflight_copy() {
    let v = ManuallyDrop::new(view());
    let from = ManuallyDrop::new(Path::from("a/src"));
    let to = ManuallyDrop::new(Path::from("b/dst"));
    let written = ManuallyDrop::new(v.verif_copy_slice(&from, &to));
    assert!(registration_matches_written_object(&v, &written, &to), "OBL:C08.inflight.registered_pair_is_the_written_object");
    kani::cover!(true, "COVER:reach");
}

#[kani::proof]
#[kani::unwind(28)]
fn c08_inflight_meta_multipart() {
    let w = ManuallyDrop::new(VerifWrapperView { inner: view() });
    let loc = ManuallyDrop::new(Path::from("b/dst"));
    let written = ManuallyDrop::new(w.verif_meta_multipart_slice(&loc));
    assert!(registration_matches_written_object(&w.inner, &written, &loc), "OBL:C08.inflight.registered_pair_is_the_written_object");
    kani::cover!(true, "COVER:reach");
}

#[kani::proof]
#[kani::unwind(28)]
fn c08_inflight_enc_multipart() {
    let w = ManuallyDrop::new(VerifWrapperView { inner: view() });
    let loc = ManuallyDrop::new(Path::from("b/dst"));
    let written = ManuallyDrop::new(w.verif_enc_multipart_slice(&loc));
    assert!(registration_matches_written_object(&w.inner, &written, &loc), "OBL:C08.inflight.registered_pair_is_the_written_object");
    kani::cover!(true, "COVER:reach");
}
