//! C09.down — contract of `verify_metadata` (rs/anda_object_store/src/encryption.rs)
//! on every path that returns BEFORE any cipher call: the downgrade decision table.
//!
//! Child module of `encryption` (cfg(kani), scratch copy only). Property sentence:
//! "... or stripping authentication fields — every read ... either returns exactly
//! the originally written bytes or fails". A document without the seal
//! (auth_nonce, auth_tag) may be accepted only as genuine pre-seal legacy metadata:
//! never when it carries a field that only sealing writers record
//! (`chunk_aad_version`, `generation`), never in strict mode, never when only one of
//! the two seal fields is present, and it is never reported as Authenticated.
//!
//! Rule 1 (structure concrete): the presence combination of the two seal fields and
//! of `generation` (a String) is enumerated as CONCRETE blocks, so the AES-GCM path
//! of (Some, Some) is statically absent from each harness — excluding it by
//! `kani::assume` made CBMC unfold the cipher (11 min / 10 GB, no verdict). Inside a
//! block everything the function can read is symbolic. The `cipher` argument is
//! never read on these paths; it is passed as a `MaybeUninit` place.
use super::*;
use core::mem::{ManuallyDrop, MaybeUninit};

pub(super) fn stub_format(_args: core::fmt::Arguments<'_>) -> String {
    String::new()
}

fn any_opt_u64() -> Option<u64> {
    if kani::any() { Some(kani::any()) } else { None }
}

/// Concrete heap shape, symbolic scalars.
fn meta_with(
    explicit: Option<u8>,
    auth_nonce: Option<ByteArray<12>>,
    auth_tag: Option<ByteArray<16>>,
    generation: Option<String>,
) -> ManuallyDrop<Metadata> {
    ManuallyDrop::new(Metadata {
        size: kani::any(),
        e_tag: None,
        original_tag: None,
        original_version: None,
        aes_nonce: ByteArray::new(kani::any()),
        aes_tags: Vec::new(),
        chunk_size: any_opt_u64(),
        chunk_aad_version: explicit,
        auth_nonce,
        auth_tag,
        generation,
        committed_at_ms: any_opt_u64(),
    })
}

fn call(meta: &Metadata, strict: bool) -> ManuallyDrop<Result<MetadataAuth>> {
    let cipher = MaybeUninit::<Aes256Gcm>::uninit();
    let location = ManuallyDrop::new(Path::default());
    // SAFETY (harness): the paths under contract never read the cipher; a path that
    // did would be reported by Kani as a read of uninitialised memory / would unfold
    // AES and time out (UNDECIDED), never pass silently.
    let cipher_ref: &Aes256Gcm = unsafe { &*cipher.as_ptr() };
    ManuallyDrop::new(verify_metadata(cipher_ref, &location, meta, strict))
}

/// One (None, None) block: no seal at all. `generation` presence is the block's
/// concrete parameter; explicit chunk-AAD version over all Option<u8>, strict mode,
/// size, chunk_size, commit time, base nonce symbolic.
fn block_unsealed(generation: Option<String>) {
    let has_generation = generation.is_some();
    let explicit: Option<u8> = kani::any();
    let strict: bool = kani::any();
    let meta = meta_with(explicit, None, None, generation);
    let r = call(&meta, strict);

    if explicit.is_some() || has_generation {
        assert!(r.is_err(), "OBL:C09.down.stripped_rejected");
    }
    if strict {
        assert!(r.is_err(), "OBL:C09.down.strict_rejects_legacy");
    }
    if let Ok(auth) = &*r {
        assert!(
            *auth == MetadataAuth::Legacy && explicit.is_none() && !has_generation && !strict,
            "OBL:C09.down.legacy_only_if_genuine"
        );
    }
    assert!(
        !matches!(&*r, Ok(MetadataAuth::Authenticated)),
        "OBL:C09.down.unsealed_never_authenticated"
    );
    kani::cover!(matches!(&*r, Ok(MetadataAuth::Legacy)), "COVER:legacy_accepted");
    kani::cover!(r.is_err() && !strict, "COVER:stripped_err");
    kani::cover!(r.is_err() && strict && explicit.is_none(), "COVER:strict_err");
}

#[kani::proof]
#[kani::unwind(3)]
#[kani::stub(alloc::fmt::format, stub_format)]
fn c09_down_unsealed() {
    block_unsealed(None);
    block_unsealed(Some(String::new()));
    let g: u8 = kani::any();
    kani::assume(g < 0x80);
    block_unsealed(Some(unsafe { String::from_utf8_unchecked(vec![g]) }));
    kani::cover!(true, "COVER:reach");
}

/// One block with exactly one of the two seal fields.
fn block_partial(nonce_present: bool, generation: Option<String>) {
    let explicit: Option<u8> = kani::any();
    let strict: bool = kani::any();
    let n: [u8; 12] = kani::any();
    let t: [u8; 16] = kani::any();
    let meta = if nonce_present {
        meta_with(explicit, Some(ByteArray::new(n)), None, generation)
    } else {
        meta_with(explicit, None, Some(ByteArray::new(t)), generation)
    };
    let r = call(&meta, strict);
    assert!(r.is_err(), "OBL:C09.down.partial_seal_rejected");
    assert!(
        !matches!(&*r, Ok(MetadataAuth::Authenticated)),
        "OBL:C09.down.unsealed_never_authenticated"
    );
    kani::cover!(r.is_err() && !strict && explicit.is_none(), "COVER:partial_err");
}

#[kani::proof]
#[kani::unwind(3)]
#[kani::stub(alloc::fmt::format, stub_format)]
fn c09_down_partial() {
    block_partial(true, None);
    block_partial(false, None);
    block_partial(true, Some(String::new()));
    block_partial(false, Some(String::new()));
    kani::cover!(true, "COVER:reach");
}
