//! C16.belief — contract of `validate_exact_patterns` (rs/anda_kip/src/parser/kml.rs)
//! and of the EXPORT CAPSULE arm of `validate_command` (parser.rs).
//!
//! Child module of `parser::kml` (cfg(kani), scratch copy only). Property C16:
//! no accepted command "uses a belief projection as a mutation or export
//! target". The obligation is stated on the tree: a selection block that
//! contains a `Belief` or `BeliefSlot` pattern anywhere — top level, or nested
//! in NOT / OPTIONAL / UNION down to depth 2, at any position among ordinary
//! patterns — is rejected. Shapes are enumerated concretely (rule 1); all AST
//! values live in `ManuallyDrop` (rule 2); error text is stubbed.
use super::*;
use crate::ast::{BeliefTarget, Command, MetaCommand, PredTerm};
use core::mem::ManuallyDrop;

pub(super) fn stub_format(_args: core::fmt::Arguments<'_>) -> String {
    String::new()
}

fn s(x: &str) -> String {
    String::from(x)
}

/// The five spellings of a belief projection pattern.
fn belief(form: usize) -> WhereClause {
    match form {
        // ?b BELIEF (?p)
        0 => WhereClause::Belief { variable: s("b"), target: BeliefTarget::Proposition(s("p")) },
        // ?b BELIEF SLOT (?x, "q")
        1 => WhereClause::BeliefSlot {
            variable: s("b"),
            subject: Term::Variable(s("x")),
            predicate: PredAtom::Literal(s("q")),
        },
        // ?b BELIEF (:id)
        2 => WhereClause::Belief { variable: s("b"), target: BeliefTarget::Id(Scalar::Param(s("i"))) },
        // ?b BELIEF ((?x, "q", ?y))
        3 => WhereClause::Belief {
            variable: s("b"),
            target: BeliefTarget::Tuple(PropositionTriple {
                subject: Term::Variable(s("x")),
                predicate: PredTerm::Atom(PredAtom::Literal(s("q"))),
                object: Term::Variable(s("y")),
            }),
        },
        // ?b BELIEF SLOT (:x, :q)
        _ => WhereClause::BeliefSlot {
            variable: s("b"),
            subject: Term::Param(s("x")),
            predicate: PredAtom::Param(s("q")),
        },
    }
}

/// An ordinary exact pattern: `?c CONCEPT {}`.
fn ordinary() -> WhereClause {
    WhereClause::Concept { variable: s("c"), matcher: ObjectMatcher::new() }
}

/// NOT / OPTIONAL / UNION around `inner`.
fn wrap(w: usize, inner: Vec<WhereClause>) -> WhereClause {
    match w {
        0 => WhereClause::Not(inner),
        1 => WhereClause::Optional(inner),
        _ => WhereClause::Union(inner),
    }
}

fn rejected(clauses: Vec<WhereClause>) -> bool {
    let clauses = ManuallyDrop::new(clauses);
    let r = ManuallyDrop::new(validate_exact_patterns(&clauses));
    r.is_err()
}

/// Depth 0: each of the five belief spellings alone, after and before an
/// ordinary pattern.
#[kani::proof]
#[kani::unwind(4)]
#[kani::stub(alloc::fmt::format, stub_format)]
fn c16_belief_depth0() {
    let mut f = 0;
    while f < 5 {
        assert!(rejected(vec![belief(f)]), "OBL:C16.belief.rejected");
        assert!(rejected(vec![ordinary(), belief(f)]), "OBL:C16.belief.rejected");
        assert!(rejected(vec![belief(f), ordinary()]), "OBL:C16.belief.rejected");
        f += 1;
    }
    // not everything is rejected: an ordinary exact block is accepted
    kani::cover!(!rejected(vec![ordinary()]), "COVER:ordinary_accepted");
    kani::cover!(true, "COVER:reach");
}

/// Depth 1: BELIEF / BELIEF SLOT inside NOT, OPTIONAL, UNION — alone in the
/// group, and as the second pattern of a group that is itself the second
/// pattern of the block.
#[kani::proof]
#[kani::unwind(4)]
#[kani::stub(alloc::fmt::format, stub_format)]
fn c16_belief_depth1() {
    let mut w = 0;
    while w < 3 {
        let mut f = 0;
        while f < 2 {
            assert!(rejected(vec![wrap(w, vec![belief(f)])]), "OBL:C16.belief.rejected");
            assert!(
                rejected(vec![ordinary(), wrap(w, vec![ordinary(), belief(f)])]),
                "OBL:C16.belief.rejected"
            );
            f += 1;
        }
        w += 1;
    }
    kani::cover!(!rejected(vec![wrap(1, vec![ordinary()])]), "COVER:ordinary_accepted");
    kani::cover!(true, "COVER:reach");
}

/// Depth 2: every pair of group kinds (3 x 3) around BELIEF and BELIEF SLOT.
#[kani::proof]
#[kani::unwind(4)]
#[kani::stub(alloc::fmt::format, stub_format)]
fn c16_belief_depth2() {
    let mut w1 = 0;
    while w1 < 3 {
        let mut w2 = 0;
        while w2 < 3 {
            let mut f = 0;
            while f < 2 {
                assert!(
                    rejected(vec![wrap(w1, vec![wrap(w2, vec![belief(f)])])]),
                    "OBL:C16.belief.rejected"
                );
                f += 1;
            }
            w2 += 1;
        }
        w1 += 1;
    }
    assert!(
        rejected(vec![ordinary(), wrap(2, vec![ordinary(), wrap(0, vec![ordinary(), belief(1)])])]),
        "OBL:C16.belief.rejected"
    );
    kani::cover!(!rejected(vec![wrap(2, vec![wrap(1, vec![ordinary()])])]), "COVER:ordinary_accepted");
    kani::cover!(true, "COVER:reach");
}

fn export(clauses: Vec<WhereClause>) -> ManuallyDrop<Command> {
    ManuallyDrop::new(Command::Meta(MetaCommand::ExportCapsule(crate::ast::ExportCapsuleCommand {
        target: ElementRef::Param(s("capsule")),
        where_clauses: clauses,
        options: None,
        as_of: None,
    })))
}

/// `validate_command` on an injected EXPORT CAPSULE tree whose selection names
/// a belief projection (top level and inside each group kind) ⇒ rejected.
#[kani::proof]
#[kani::unwind(4)]
#[kani::stub(alloc::fmt::format, stub_format)]
fn c16_belief_export() {
    let mut f = 0;
    while f < 2 {
        let c = export(vec![ordinary(), belief(f)]);
        let r = ManuallyDrop::new(crate::parser::validate_command(&c));
        assert!(r.is_err(), "OBL:C16.belief.export_rejected");
        let mut w = 0;
        while w < 3 {
            let c = export(vec![wrap(w, vec![belief(f)])]);
            let r = ManuallyDrop::new(crate::parser::validate_command(&c));
            assert!(r.is_err(), "OBL:C16.belief.export_rejected");
            w += 1;
        }
        f += 1;
    }
    let c = export(vec![ordinary()]);
    let r = ManuallyDrop::new(crate::parser::validate_command(&c));
    kani::cover!(r.is_ok(), "COVER:ordinary_accepted");
    kani::cover!(true, "COVER:reach");
}

// ---- EXPERIMENTS (to be removed) ----
fn sv(x: &'static str) -> String {
    unsafe { String::from_raw_parts(x.as_ptr() as *mut u8, x.len(), x.len()) }
}
macro_rules! stack_vec {
    ($name:ident = [$($e:expr),*]) => {
        let mut buf = ManuallyDrop::new([$($e),*]);
        let $name = unsafe { Vec::from_raw_parts(buf.as_mut_ptr(), buf.len(), buf.len()) };
    };
}
fn xbelief() -> WhereClause {
    WhereClause::Belief { variable: sv("b"), target: BeliefTarget::Proposition(sv("p")) }
}
fn xslot() -> WhereClause {
    WhereClause::BeliefSlot { variable: sv("b"), subject: Term::Variable(sv("x")), predicate: PredAtom::Literal(sv("q")) }
}
fn xord() -> WhereClause {
    WhereClause::Concept { variable: sv("c"), matcher: ObjectMatcher::new() }
}
fn xrej(v: Vec<WhereClause>) -> bool {
    let v = ManuallyDrop::new(v);
    let r = ManuallyDrop::new(validate_exact_patterns(&v));
    r.is_err()
}
#[kani::proof]
#[kani::unwind(4)]
#[kani::stub(alloc::fmt::format, stub_format)]
fn x_b5() {
    stack_vec!(v = [xbelief()]);
    assert!(xrej(v), "X");
}
#[kani::proof]
#[kani::unwind(4)]
#[kani::stub(alloc::fmt::format, stub_format)]
fn x_b6() {
    stack_vec!(v2 = [xslot()]);
    stack_vec!(v1 = [WhereClause::Optional(v2)]);
    stack_vec!(v = [WhereClause::Union(v1)]);
    assert!(xrej(v), "X");
}
#[kani::proof]
#[kani::unwind(4)]
#[kani::stub(alloc::fmt::format, stub_format)]
fn x_b7() {
    stack_vec!(v = [xord(), xslot()]);
    assert!(xrej(v), "X");
}
#[kani::proof]
#[kani::unwind(3)]
#[kani::stub(alloc::fmt::format, stub_format)]
fn x_b8() {
    stack_vec!(v = [xord(), xslot()]);
    assert!(xrej(v), "X");
}

#[kani::proof]
#[kani::unwind(3)]
#[kani::stub(alloc::fmt::format, stub_format)]
fn x_b9() {
    stack_vec!(v = [xord(), xslot()]);
    assert!(xrej(v), "X");
    stack_vec!(v = [xbelief(), xord()]);
    assert!(xrej(v), "X");
    stack_vec!(v2 = [xslot()]);
    stack_vec!(v1 = [WhereClause::Optional(v2)]);
    stack_vec!(v = [WhereClause::Union(v1)]);
    assert!(xrej(v), "X");
    stack_vec!(v2 = [xbelief()]);
    stack_vec!(v1 = [WhereClause::Not(v2)]);
    stack_vec!(v = [WhereClause::Not(v1)]);
    assert!(xrej(v), "X");
    stack_vec!(v2 = [xord(), xbelief()]);
    stack_vec!(v1 = [xord(), WhereClause::Not(v2)]);
    stack_vec!(v = [xord(), WhereClause::Optional(v1)]);
    assert!(xrej(v), "X");
    stack_vec!(v1 = [xord()]);
    stack_vec!(v = [xord(), WhereClause::Optional(v1)]);
    kani::cover!(!xrej(v), "COVER:ok");
}

#[kani::proof]
#[kani::unwind(2)]
#[kani::stub(alloc::fmt::format, stub_format)]
fn x_c1() {
    stack_vec!(v = [xbelief()]);
    assert!(xrej(v), "X");
}
#[kani::proof]
#[kani::unwind(2)]
#[kani::stub(alloc::fmt::format, stub_format)]
fn x_c2() {
    stack_vec!(v = [xord()]);
    assert!(!xrej(v), "X");
}
#[kani::proof]
#[kani::unwind(2)]
#[kani::stub(alloc::fmt::format, stub_format)]
fn x_c3() {
    let e = ManuallyDrop::new(KipError::invalid_syntax("x"));
    assert!(e.message.is_empty(), "X");
}
#[kani::proof]
#[kani::unwind(2)]
fn x_c4() {
    let v: [WhereClause; 0] = [];
    let r = ManuallyDrop::new(validate_exact_patterns(&v));
    assert!(r.is_ok(), "X");
}
