//! C16.belief — contract of `validate_exact_patterns` and of the WHERE check of
//! `validate_clause` (rs/anda_kip/src/parser/kml.rs).
//!
//! Child module of `parser::kml` (cfg(kani), scratch copy only). Property C16:
//! no accepted command "uses a belief projection as a mutation or export
//! target". The obligation is stated on the tree: a selection block that
//! contains a `Belief` or `BeliefSlot` pattern anywhere — top level, or nested
//! in NOT / OPTIONAL / UNION down to depth 2, at any position among ordinary
//! patterns — is rejected, and so is every mutation clause carrying such a
//! block. Shapes are enumerated concretely (rule 1); the trees are built over
//! stack arrays and static string bytes and never dropped (rule 2; heap-built
//! trees did not finish: see units/C16.toml); error text is stubbed.
use super::*;
use crate::ast::{BeliefTarget, PredTerm};
use core::mem::ManuallyDrop;

pub(super) fn stub_format(_args: core::fmt::Arguments<'_>) -> String {
    String::new()
}

/// A `String` over the bytes of a string literal (read-only use, never dropped).
fn sv(x: &'static str) -> String {
    unsafe { String::from_raw_parts(x.as_ptr() as *mut u8, x.len(), x.len()) }
}

/// `let name: Vec<T>` over a stack array living in the enclosing scope.
macro_rules! stack_vec {
    ($name:ident = [$($e:expr),*]) => {
        let mut buf = ManuallyDrop::new([$($e),*]);
        let $name = unsafe { Vec::from_raw_parts(buf.as_mut_ptr(), buf.len(), buf.len()) };
    };
}

/// The five spellings of a belief projection pattern.
fn belief(form: usize) -> WhereClause {
    match form {
        // ?b BELIEF (?p)
        0 => WhereClause::Belief { variable: sv("b"), target: BeliefTarget::Proposition(sv("p")) },
        // ?b BELIEF SLOT (?x, "q")
        1 => WhereClause::BeliefSlot {
            variable: sv("b"),
            subject: Term::Variable(sv("x")),
            predicate: PredAtom::Literal(sv("q")),
        },
        // ?b BELIEF (:id)
        2 => WhereClause::Belief { variable: sv("b"), target: BeliefTarget::Id(Scalar::Param(sv("i"))) },
        // ?b BELIEF ((?x, "q", ?y))
        3 => WhereClause::Belief {
            variable: sv("b"),
            target: BeliefTarget::Tuple(PropositionTriple {
                subject: Term::Variable(sv("x")),
                predicate: PredTerm::Atom(PredAtom::Literal(sv("q"))),
                object: Term::Variable(sv("y")),
            }),
        },
        // ?b BELIEF SLOT (:x, :q)
        _ => WhereClause::BeliefSlot {
            variable: sv("b"),
            subject: Term::Param(sv("x")),
            predicate: PredAtom::Param(sv("q")),
        },
    }
}

/// An ordinary exact pattern: `?c CONCEPT {}`.
fn ordinary() -> WhereClause {
    WhereClause::Concept { variable: sv("c"), matcher: ObjectMatcher::new() }
}

/// NOT / OPTIONAL / UNION around `inner`.
fn wrap(w: usize, inner: Vec<WhereClause>) -> WhereClause {
    match w {
        0 => WhereClause::Not(inner),
        1 => WhereClause::Optional(inner),
        _ => WhereClause::Union(inner),
    }
}

fn rejected(clauses: Vec<WhereClause>) -> bool {
    let clauses = ManuallyDrop::new(clauses);
    let r = ManuallyDrop::new(validate_exact_patterns(&clauses));
    r.is_err()
}

/// `{ a }`
fn rejected1(a: WhereClause) -> bool {
    stack_vec!(v = [a]);
    rejected(v)
}

/// `{ a b }`
fn rejected2(a: WhereClause, b: WhereClause) -> bool {
    stack_vec!(v = [a, b]);
    rejected(v)
}

/// `{ W { a } }`
fn rejected_in(w: usize, a: WhereClause) -> bool {
    stack_vec!(i = [a]);
    stack_vec!(v = [wrap(w, i)]);
    rejected(v)
}

/// `{ ordinary W { ordinary a } }`
fn rejected_in_second(w: usize, a: WhereClause) -> bool {
    stack_vec!(i = [ordinary(), a]);
    stack_vec!(v = [ordinary(), wrap(w, i)]);
    rejected(v)
}

/// `{ W1 { W2 { a } } }`
fn rejected_in2(w1: usize, w2: usize, a: WhereClause) -> bool {
    stack_vec!(i2 = [a]);
    stack_vec!(i1 = [wrap(w2, i2)]);
    stack_vec!(v = [wrap(w1, i1)]);
    rejected(v)
}

/// Depth 0: BELIEF and BELIEF SLOT alone; BELIEF after, BELIEF SLOT before an
/// ordinary pattern.
#[kani::proof]
#[kani::unwind(4)]
#[kani::stub(alloc::fmt::format, stub_format)]
fn c16_belief_depth0_positions() {
    assert!(rejected1(belief(0)), "OBL:C16.belief.rejected");
    assert!(rejected1(belief(1)), "OBL:C16.belief.rejected");
    assert!(rejected2(ordinary(), belief(0)), "OBL:C16.belief.rejected");
    assert!(rejected2(belief(1), ordinary()), "OBL:C16.belief.rejected");
    // not everything is rejected: an ordinary exact block is accepted
    kani::cover!(!rejected1(ordinary()), "COVER:ordinary_accepted");
    kani::cover!(true, "COVER:reach");
}

/// Depth 0: the other three spellings (BELIEF by id, BELIEF of an inline tuple,
/// BELIEF SLOT over parameters) alone (thorough tier).
#[kani::proof]
#[kani::unwind(4)]
#[kani::stub(alloc::fmt::format, stub_format)]
fn c16_belief_depth0_spellings() {
    assert!(rejected1(belief(2)), "OBL:C16.belief.rejected");
    assert!(rejected1(belief(3)), "OBL:C16.belief.rejected");
    assert!(rejected1(belief(4)), "OBL:C16.belief.rejected");
    kani::cover!(true, "COVER:reach");
}

/// Depth 1: the pattern inside NOT, OPTIONAL, UNION, alone in the group. Over
/// the three group kinds the pattern alternates BELIEF / BELIEF SLOT / BELIEF
/// (`parity` 0) or the complementary assignment (`parity` 1) — together all six
/// (group kind, pattern) cells.
fn depth1(parity: usize) {
    let mut w = 0;
    while w < 3 {
        assert!(rejected_in(w, belief((w + parity) % 2)), "OBL:C16.belief.rejected");
        w += 1;
    }
}

#[kani::proof]
#[kani::unwind(4)]
#[kani::stub(alloc::fmt::format, stub_format)]
fn c16_belief_depth1_even() {
    depth1(0);
    // second pattern of a group that is itself the second pattern of the block
    assert!(rejected_in_second(2, belief(1)), "OBL:C16.belief.rejected");
    kani::cover!(!rejected_in(1, ordinary()), "COVER:ordinary_accepted");
    kani::cover!(true, "COVER:reach");
}

/// The other three (group kind, pattern) cells of depth 1 (thorough tier).
#[kani::proof]
#[kani::unwind(4)]
#[kani::stub(alloc::fmt::format, stub_format)]
fn c16_belief_depth1_odd() {
    depth1(1);
    assert!(rejected_in_second(0, belief(0)), "OBL:C16.belief.rejected");
    kani::cover!(true, "COVER:reach");
}

/// Depth 2, quick tier: four of the nine group nestings — NOT{OPTIONAL},
/// OPTIONAL{UNION}, UNION{NOT}, UNION{UNION} — alternating BELIEF / BELIEF SLOT.
#[kani::proof]
#[kani::unwind(4)]
#[kani::stub(alloc::fmt::format, stub_format)]
fn c16_belief_depth2_sample() {
    assert!(rejected_in2(0, 1, belief(0)), "OBL:C16.belief.rejected");
    assert!(rejected_in2(1, 2, belief(1)), "OBL:C16.belief.rejected");
    assert!(rejected_in2(2, 0, belief(0)), "OBL:C16.belief.rejected");
    assert!(rejected_in2(2, 2, belief(1)), "OBL:C16.belief.rejected");
    kani::cover!(!rejected_in2(2, 1, ordinary()), "COVER:ordinary_accepted");
    kani::cover!(true, "COVER:reach");
}

/// Depth 2, thorough tier: every pair of group kinds (3 x 3) around BELIEF
/// (`form` 0) and around BELIEF SLOT (`form` 1) — all 18 cells.
fn depth2(form: usize) {
    let mut w1 = 0;
    while w1 < 3 {
        let mut w2 = 0;
        while w2 < 3 {
            assert!(rejected_in2(w1, w2, belief(form)), "OBL:C16.belief.rejected");
            w2 += 1;
        }
        w1 += 1;
    }
}

#[kani::proof]
#[kani::unwind(4)]
#[kani::stub(alloc::fmt::format, stub_format)]
fn c16_belief_depth2_all_belief() {
    depth2(0);
    kani::cover!(true, "COVER:reach");
}

#[kani::proof]
#[kani::unwind(4)]
#[kani::stub(alloc::fmt::format, stub_format)]
fn c16_belief_depth2_all_slot() {
    depth2(1);
    kani::cover!(true, "COVER:reach");
}

// ---------------------------------------------------------------------------
// a belief projection as a MUTATION target: every clause family that carries a
// WHERE block, through the tree validator `validate_clause`
// ---------------------------------------------------------------------------

fn clause_rejected(c: MutationClause) -> bool {
    let c = ManuallyDrop::new(c);
    let r = ManuallyDrop::new(validate_clause(&c));
    r.is_err()
}

fn target() -> ElementRef {
    ElementRef::Handle(sv("t"))
}

/// `... WHERE { ?t ASSERTION {} <belief form> }`
macro_rules! where_with_belief {
    ($name:ident, $form:expr) => {
        stack_vec!(
            $name = [WhereClause::Assertion { variable: sv("t"), matcher: ObjectMatcher::new() }, belief($form)]
        );
    };
}

#[kani::proof]
#[kani::unwind(4)]
#[kani::stub(alloc::fmt::format, stub_format)]
fn c16_belief_mutation_target_a() {
    // UPDATE ?t SET ATTRIBUTES {a: :v} WHERE { ?t ASSERTION {} ?b BELIEF (?p) }
    {
        where_with_belief!(wh, 0);
        stack_vec!(a = [(sv("a"), MutationValue::Param(sv("v")))]);
        stack_vec!(acts = [UpdateAction::SetAttributes(a)]);
        assert!(
            clause_rejected(MutationClause::Update(UpdateStatement {
                target: target(),
                expect_version: None,
                actions: acts,
                where_clauses: Some(wh),
                limit: None,
            })),
            "OBL:C16.belief.mutation_target_rejected"
        );
    }
    // RETRACT ASSERTION ?t WHERE { ... BELIEF SLOT ... }
    {
        where_with_belief!(wh, 1);
        assert!(
            clause_rejected(MutationClause::RetractAssertion(RetractAssertion {
                target: target(),
                where_clauses: Some(wh),
                limit: None,
                expect_state: None,
            })),
            "OBL:C16.belief.mutation_target_rejected"
        );
    }
    // SET RETENTION ?t {a: :v} WHERE { ... BELIEF ... }
    {
        where_with_belief!(wh, 0);
        stack_vec!(a = [(sv("a"), MutationValue::Param(sv("v")))]);
        assert!(
            clause_rejected(MutationClause::SetRetention(SetRetention {
                target: target(),
                values: a,
                where_clauses: Some(wh),
                limit: None,
                expect_version: None,
            })),
            "OBL:C16.belief.mutation_target_rejected"
        );
    }
    // MERGE CONCEPT ?t INTO :k WHERE { ... BELIEF SLOT ... }
    {
        where_with_belief!(wh, 1);
        assert!(
            clause_rejected(MutationClause::MergeConcept(MergeConcept {
                source: target(),
                into: ElementRef::Param(sv("k")),
                where_clauses: Some(wh),
                expect_version: None,
            })),
            "OBL:C16.belief.mutation_target_rejected"
        );
    }
    kani::cover!(true, "COVER:reach");
}

#[kani::proof]
#[kani::unwind(8)]
#[kani::stub(alloc::fmt::format, stub_format)]
fn c16_belief_mutation_target_b() {
    // ARCHIVE ?t WHERE { ... BELIEF ... }
    {
        where_with_belief!(wh, 0);
        assert!(
            clause_rejected(MutationClause::Archive(RemovalStatement {
                target: target(),
                where_clauses: Some(wh),
                limit: None,
                expect_state: None,
            })),
            "OBL:C16.belief.mutation_target_rejected"
        );
    }
    // TOMBSTONE ?t WHERE { ... BELIEF SLOT ... }
    {
        where_with_belief!(wh, 1);
        assert!(
            clause_rejected(MutationClause::Tombstone(RemovalStatement {
                target: target(),
                where_clauses: Some(wh),
                limit: None,
                expect_state: None,
            })),
            "OBL:C16.belief.mutation_target_rejected"
        );
    }
    // PURGE ?t WHERE { ... BELIEF SLOT ... } CONFIRM "PURGE"
    {
        where_with_belief!(wh, 1);
        assert!(
            clause_rejected(MutationClause::Purge(crate::ast::PurgeStatement {
                target: target(),
                where_clauses: Some(wh),
                limit: None,
                reference_policy: None,
                confirm: sv("PURGE"),
            })),
            "OBL:C16.belief.mutation_target_rejected"
        );
    }
    // the same ARCHIVE with an ordinary selection is accepted
    {
        stack_vec!(wh = [WhereClause::Assertion { variable: sv("t"), matcher: ObjectMatcher::new() }]);
        kani::cover!(
            !clause_rejected(MutationClause::Archive(RemovalStatement {
                target: target(),
                where_clauses: Some(wh),
                limit: None,
                expect_state: None,
            })),
            "COVER:ordinary_accepted"
        );
    }
    kani::cover!(true, "COVER:reach");
}
