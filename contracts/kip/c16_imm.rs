//! C16.imm — contracts of `guard_immutable_field`, `guard_structural_mutation`,
//! `bound_kind_of` and `guard_update` (rs/anda_kip/src/parser/kml.rs).
//!
//! Child module of `parser::kml` (cfg(kani), scratch copy only), so the private
//! guards and `BoundKind` are visible unchanged. The expected tables are written
//! from the property statement (C16: no accepted mutation "rewrites the payload
//! of an Assertion, Evidence or Proposition") and from Spec §13.7 / §15.5 /
//! §12.5 / §17.5 — not from the `*_IMMUTABLE` constants: every name is spelled
//! again here, so an entry dropped from a shipped list, or a kind no longer
//! consulted, is a refutation.
use super::*;
use core::mem::ManuallyDrop;

/// Spec §13.7 "Immutable assertion payload": proposition, asserted_by, stance,
/// mode, confidence, asserted_at, valid_time, initial Evidence citations
/// (`evidence` / `evidence_refs`); `proposition_id` is the id spelling of
/// `proposition`.
const SPEC_ASSERTION: [&str; 10] = [
    "proposition_id",
    "proposition",
    "asserted_by",
    "stance",
    "mode",
    "confidence",
    "asserted_at",
    "valid_time",
    "evidence",
    "evidence_refs",
];
/// Spec §15.5: the original Evidence payload and observation identity.
const SPEC_EVIDENCE: [&str; 5] = ["evidence_class", "payload", "content_digest", "media_type", "observed_at"];
/// Spec §12.5: the Proposition tuple.
const SPEC_PROPOSITION: [&str; 3] = ["subject", "predicate", "object"];
/// Names no list mentions: mutable state of every kind.
const ORDINARY: [&str; 3] = ["name", "summary", "n"];

const KINDS: [Option<BoundKind>; 6] = [
    Some(BoundKind::Assertion),
    Some(BoundKind::Evidence),
    Some(BoundKind::Proposition),
    Some(BoundKind::Concept),
    Some(BoundKind::Activity),
    None,
];

fn member(name: &str, list: &[&str]) -> bool {
    let n = name.as_bytes();
    let mut i = 0;
    while i < list.len() {
        let l = list[i].as_bytes();
        if l.len() == n.len() {
            let mut j = 0;
            let mut same = true;
            while j < l.len() {
                if l[j] != n[j] {
                    same = false;
                }
                j += 1;
            }
            if same {
                return true;
            }
        }
        i += 1;
    }
    false
}

/// The (kind, field) pairs whose assignment rewrites immutable payload.
fn spec_immutable(kind: Option<BoundKind>, field: &str) -> bool {
    match kind {
        Some(BoundKind::Assertion) => member(field, &SPEC_ASSERTION),
        Some(BoundKind::Evidence) => member(field, &SPEC_EVIDENCE),
        Some(BoundKind::Proposition) => member(field, &SPEC_PROPOSITION),
        _ => false,
    }
}

/// Checks one row of the table: every kind against `field`.
fn row(field: &str) {
    let mut k = 0;
    while k < 6 {
        let kind = KINDS[k];
        let r = guard_immutable_field(field, kind);
        if spec_immutable(kind, field) {
            // the property: immutable payload of the bound kind cannot be assigned
            assert!(r.is_err(), "OBL:C16.imm.table");
        } else {
            // documented meaning ("UPDATE reaches mutable state"; kml.rs test
            // `update_rejects_immutable_payload`: `confidence` on a CONCEPT is accepted):
            // the guard refuses nothing but the listed payload of the bound kind
            assert!(r.is_ok(), "OBL:C16.imm.only_payload_rejected");
        }
        k += 1;
    }
}

/// `guard_immutable_field` over the complete finite table: 6 kinds (five
/// `BoundKind`s + unbound) × (10 + 5 + 3 listed names + 3 ordinary names).
/// All strings concrete: exhaustive for the table.
#[kani::proof]
#[kani::unwind(16)]
fn c16_imm_field_table() {
    let mut i = 0;
    while i < 10 {
        row(SPEC_ASSERTION[i]);
        i += 1;
    }
    let mut i = 0;
    while i < 5 {
        row(SPEC_EVIDENCE[i]);
        i += 1;
    }
    let mut i = 0;
    while i < 3 {
        row(SPEC_PROPOSITION[i]);
        row(ORDINARY[i]);
        i += 1;
    }
    kani::cover!(guard_immutable_field("stance", Some(BoundKind::Assertion)).is_err(), "COVER:rejected");
    kani::cover!(guard_immutable_field("stance", Some(BoundKind::Concept)).is_ok(), "COVER:accepted");
    kani::cover!(true, "COVER:reach");
}

/// `guard_structural_mutation`: Spec §17.5 — structural mutation reaches mutable
/// Concept topology only; Assertion, Evidence, (terminal) Activity topology is
/// immutable and a Proposition has no structural fields.
#[kani::proof]
#[kani::unwind(2)]
fn c16_imm_structural_table() {
    assert!(guard_structural_mutation(Some(BoundKind::Assertion)).is_err(), "OBL:C16.imm.structural_records_rejected");
    assert!(guard_structural_mutation(Some(BoundKind::Evidence)).is_err(), "OBL:C16.imm.structural_records_rejected");
    assert!(guard_structural_mutation(Some(BoundKind::Proposition)).is_err(), "OBL:C16.imm.structural_records_rejected");
    assert!(guard_structural_mutation(Some(BoundKind::Activity)).is_err(), "OBL:C16.imm.structural_records_rejected");
    assert!(guard_structural_mutation(Some(BoundKind::Concept)).is_ok(), "OBL:C16.imm.structural_concept_allowed");
    kani::cover!(guard_structural_mutation(None).is_ok(), "COVER:unbound_ok");
    kani::cover!(true, "COVER:reach");
}

// ---------------------------------------------------------------------------
// guard_update: the wiring WHERE-bound kind -> guards, on concrete UPDATE trees
// ---------------------------------------------------------------------------

fn s(x: &str) -> String {
    String::from(x)
}

/// `?var <KIND> ...` with an empty matcher (0 Assertion, 1 Evidence,
/// 2 Proposition, 3 Concept, 4 Activity).
fn bind(kind: usize, var: &str) -> WhereClause {
    match kind {
        0 => WhereClause::Assertion { variable: s(var), matcher: ObjectMatcher::new() },
        1 => WhereClause::Evidence { variable: s(var), matcher: ObjectMatcher::new() },
        2 => WhereClause::Proposition {
            variable: Some(s(var)),
            matcher: PropositionMatcher::Id(Scalar::Param(s("p"))),
        },
        3 => WhereClause::Concept { variable: s(var), matcher: ObjectMatcher::new() },
        _ => WhereClause::Activity { variable: s(var), matcher: ObjectMatcher::new() },
    }
}

/// `UPDATE ?t <action> WHERE { <clauses> }`
fn update(action: UpdateAction, clauses: Vec<WhereClause>) -> ManuallyDrop<UpdateStatement> {
    ManuallyDrop::new(UpdateStatement {
        target: ElementRef::Handle(s("t")),
        expect_version: None,
        actions: vec![action],
        where_clauses: Some(clauses),
        limit: None,
    })
}

fn set_field(name: &str) -> UpdateAction {
    UpdateAction::SetFields(vec![(s(name), MutationValue::Param(s("v")))])
}

/// `UPDATE ?t SET FIELDS {<name>: :v} WHERE { ?t <KIND> {} }` for every name of
/// the kind's immutable payload ⇒ rejected.
fn update_rows(kind: usize, names: &[&str]) {
    let mut i = 0;
    while i < names.len() {
        let st = update(set_field(names[i]), vec![bind(kind, "t")]);
        assert!(guard_update(&st).is_err(), "OBL:C16.imm.update_payload_rejected");
        i += 1;
    }
}

#[kani::proof]
#[kani::unwind(16)]
fn c16_imm_update_assertion() {
    update_rows(0, &SPEC_ASSERTION);
    kani::cover!(true, "COVER:reach");
}

#[kani::proof]
#[kani::unwind(16)]
fn c16_imm_update_evidence() {
    update_rows(1, &SPEC_EVIDENCE);
    kani::cover!(true, "COVER:reach");
}

#[kani::proof]
#[kani::unwind(16)]
fn c16_imm_update_proposition() {
    update_rows(2, &SPEC_PROPOSITION);
    // the same names on a CONCEPT are ordinary fields (kml.rs test
    // `update_rejects_immutable_payload`): reachable acceptance
    let st = update(set_field("subject"), vec![bind(3, "t")]);
    kani::cover!(guard_update(&st).is_ok(), "COVER:concept_accepted");
    kani::cover!(true, "COVER:reach");
}

/// The kind is found when the binding pattern is not the first pattern and when
/// it sits inside OPTIONAL / UNION / NOT (depth 1 and 2), and the immutable
/// field is not the first assignment of the block.
#[kani::proof]
#[kani::unwind(16)]
fn c16_imm_update_nested() {
    // second pattern of the block
    let st = update(set_field("stance"), vec![bind(3, "c"), bind(0, "t")]);
    assert!(guard_update(&st).is_err(), "OBL:C16.imm.update_payload_rejected");
    // inside OPTIONAL / UNION / NOT
    let st = update(set_field("payload"), vec![WhereClause::Optional(vec![bind(1, "t")])]);
    assert!(guard_update(&st).is_err(), "OBL:C16.imm.update_payload_rejected");
    let st = update(set_field("object"), vec![WhereClause::Union(vec![bind(2, "t")])]);
    assert!(guard_update(&st).is_err(), "OBL:C16.imm.update_payload_rejected");
    let st = update(set_field("mode"), vec![WhereClause::Not(vec![bind(0, "t")])]);
    assert!(guard_update(&st).is_err(), "OBL:C16.imm.update_payload_rejected");
    // depth 2
    let st = update(
        set_field("confidence"),
        vec![WhereClause::Union(vec![WhereClause::Optional(vec![bind(0, "t")])])],
    );
    assert!(guard_update(&st).is_err(), "OBL:C16.imm.update_payload_rejected");
    // second assignment of the block
    let st = update(
        UpdateAction::SetFields(vec![
            (s("n"), MutationValue::Param(s("v"))),
            (s("valid_time"), MutationValue::Param(s("v"))),
        ]),
        vec![bind(0, "t")],
    );
    assert!(guard_update(&st).is_err(), "OBL:C16.imm.update_payload_rejected");
    kani::cover!(true, "COVER:reach");
}

fn edge() -> StructuralEdge {
    StructuralEdge { field: SymbolRef::Name(s("f")), value: MutationValue::Param(s("v")), options: None }
}

fn removal() -> StructuralRemoval {
    StructuralRemoval { field: SymbolRef::Name(s("f")), value: MutationValue::Param(s("v")) }
}

/// `UPDATE ?t SET|UNSET STRUCTURAL {...} WHERE { ?t <record kind> }` ⇒ rejected
/// (Assertion, Evidence, Proposition, Activity); on a CONCEPT it is reachable.
#[kani::proof]
#[kani::unwind(4)]
fn c16_imm_update_structural() {
    let recs = [0usize, 1, 2, 4];
    let mut k = 0;
    while k < 4 {
        let st = update(UpdateAction::SetStructural(vec![edge()]), vec![bind(recs[k], "t")]);
        assert!(guard_update(&st).is_err(), "OBL:C16.imm.update_structural_rejected");
        let st = update(UpdateAction::UnsetStructural(vec![removal()]), vec![bind(recs[k], "t")]);
        assert!(guard_update(&st).is_err(), "OBL:C16.imm.update_structural_rejected");
        k += 1;
    }
    let st = update(UpdateAction::SetStructural(vec![edge()]), vec![bind(3, "t")]);
    kani::cover!(guard_update(&st).is_ok(), "COVER:concept_accepted");
    kani::cover!(true, "COVER:reach");
}
