//! C16.imm — contracts of `guard_immutable_field`, `guard_structural_mutation`,
//! `bound_kind_of` and `guard_update` (rs/anda_kip/src/parser/kml.rs).
//!
//! Child module of `parser::kml` (cfg(kani), scratch copy only), so the private
//! guards and `BoundKind` are visible unchanged. The expected tables are written
//! from the property statement (C16: no accepted mutation "rewrites the payload
//! of an Assertion, Evidence or Proposition") and from Spec §13.7 / §15.5 /
//! §12.5 / §17.5 — not from the `*_IMMUTABLE` constants: every name is spelled
//! again here, so an entry dropped from a shipped list, or a kind no longer
//! consulted, is a refutation.
use super::*;
use core::mem::ManuallyDrop;

/// Spec §13.7 "Immutable assertion payload": proposition, asserted_by, stance,
/// mode, confidence, asserted_at, valid_time, initial Evidence citations
/// (`evidence` / `evidence_refs`); `proposition_id` is the id spelling of
/// `proposition`.
const SPEC_ASSERTION: [&str; 10] = [
    "proposition_id",
    "proposition",
    "asserted_by",
    "stance",
    "mode",
    "confidence",
    "asserted_at",
    "valid_time",
    "evidence",
    "evidence_refs",
];
/// Spec §15.5: the original Evidence payload and observation identity.
const SPEC_EVIDENCE: [&str; 5] = ["evidence_class", "payload", "content_digest", "media_type", "observed_at"];
/// Spec §12.5: the Proposition tuple.
const SPEC_PROPOSITION: [&str; 3] = ["subject", "predicate", "object"];
/// Names no list mentions: mutable state of every kind.
const ORDINARY: [&str; 3] = ["name", "summary", "n"];

const KINDS: [Option<BoundKind>; 6] = [
    Some(BoundKind::Assertion),
    Some(BoundKind::Evidence),
    Some(BoundKind::Proposition),
    Some(BoundKind::Concept),
    Some(BoundKind::Activity),
    None,
];

/// Checks the rows of one list: every name of `names` against every kind.
/// `owner` is the kind whose immutable payload the list is (None for the
/// ordinary names): no name occurs in two lists, so the (kind, field) pairs
/// whose assignment rewrites immutable payload are exactly `kind == owner`.
fn rows(names: &[&str], owner: Option<BoundKind>) {
    let mut i = 0;
    while i < names.len() {
        let mut k = 0;
        while k < 6 {
            let kind = KINDS[k];
            let r = guard_immutable_field(names[i], kind);
            if owner.is_some() && kind == owner {
                // the property: immutable payload of the bound kind cannot be assigned
                assert!(r.is_err(), "OBL:C16.imm.table");
            } else {
                // documented meaning ("UPDATE reaches mutable state"; kml.rs test
                // `update_rejects_immutable_payload`: `confidence` on a CONCEPT is
                // accepted): the guard refuses nothing but the listed payload of
                // the bound kind
                assert!(r.is_ok(), "OBL:C16.imm.only_payload_rejected");
            }
            k += 1;
        }
        i += 1;
    }
}

/// `guard_immutable_field` over the complete finite table: 6 kinds (five
/// `BoundKind`s + unbound) x (10 + 5 + 3 listed names + 3 ordinary names).
/// All strings concrete: exhaustive for the table. (Two harnesses only to run
/// in parallel.)
#[kani::proof]
#[kani::unwind(16)]
fn c16_imm_field_table_assertion() {
    rows(&SPEC_ASSERTION, Some(BoundKind::Assertion));
    kani::cover!(guard_immutable_field("stance", Some(BoundKind::Assertion)).is_err(), "COVER:rejected");
    kani::cover!(guard_immutable_field("stance", Some(BoundKind::Concept)).is_ok(), "COVER:accepted");
    kani::cover!(true, "COVER:reach");
}

#[kani::proof]
#[kani::unwind(16)]
fn c16_imm_field_table_others() {
    rows(&SPEC_EVIDENCE, Some(BoundKind::Evidence));
    rows(&SPEC_PROPOSITION, Some(BoundKind::Proposition));
    rows(&ORDINARY, None);
    kani::cover!(guard_immutable_field("payload", Some(BoundKind::Evidence)).is_err(), "COVER:rejected");
    kani::cover!(guard_immutable_field("n", Some(BoundKind::Evidence)).is_ok(), "COVER:accepted");
    kani::cover!(true, "COVER:reach");
}

/// `guard_structural_mutation`: Spec §17.5 — structural mutation reaches mutable
/// Concept topology only; Assertion, Evidence, (terminal) Activity topology is
/// immutable and a Proposition has no structural fields.
#[kani::proof]
#[kani::unwind(2)]
fn c16_imm_structural_table() {
    assert!(guard_structural_mutation(Some(BoundKind::Assertion)).is_err(), "OBL:C16.imm.structural_records_rejected");
    assert!(guard_structural_mutation(Some(BoundKind::Evidence)).is_err(), "OBL:C16.imm.structural_records_rejected");
    assert!(guard_structural_mutation(Some(BoundKind::Proposition)).is_err(), "OBL:C16.imm.structural_records_rejected");
    assert!(guard_structural_mutation(Some(BoundKind::Activity)).is_err(), "OBL:C16.imm.structural_records_rejected");
    assert!(guard_structural_mutation(Some(BoundKind::Concept)).is_ok(), "OBL:C16.imm.structural_concept_allowed");
    kani::cover!(guard_structural_mutation(None).is_ok(), "COVER:unbound_ok");
    kani::cover!(true, "COVER:reach");
}

// ---------------------------------------------------------------------------
// guard_update / validate_clause: the wiring WHERE-bound kind -> guards, on
// concrete UPDATE trees
// ---------------------------------------------------------------------------
// Trees are built over stack arrays and static string bytes (never dropped,
// never grown; the code under contract only takes `&`): with heap-built
// `Vec`/`String` no cell finished in 10 min (CBMC loses constant propagation on
// the enum discriminants), with stack-built ones a cell takes seconds.

pub(super) fn stub_format(_args: core::fmt::Arguments<'_>) -> String {
    String::new()
}

fn sv(x: &'static str) -> String {
    unsafe { String::from_raw_parts(x.as_ptr() as *mut u8, x.len(), x.len()) }
}

macro_rules! stack_vec {
    ($name:ident = [$($e:expr),*]) => {
        let mut buf = ManuallyDrop::new([$($e),*]);
        let $name = unsafe { Vec::from_raw_parts(buf.as_mut_ptr(), buf.len(), buf.len()) };
    };
}

const ASSERTION: usize = 0;
const EVIDENCE: usize = 1;
const PROPOSITION: usize = 2;
const CONCEPT: usize = 3;
const ACTIVITY: usize = 4;

/// `?var <KIND> ...` with an empty matcher.
fn bind(kind: usize, var: &'static str) -> WhereClause {
    match kind {
        ASSERTION => WhereClause::Assertion { variable: sv(var), matcher: ObjectMatcher::new() },
        EVIDENCE => WhereClause::Evidence { variable: sv(var), matcher: ObjectMatcher::new() },
        PROPOSITION => WhereClause::Proposition {
            variable: Some(sv(var)),
            matcher: PropositionMatcher::Id(Scalar::Param(sv("p"))),
        },
        CONCEPT => WhereClause::Concept { variable: sv(var), matcher: ObjectMatcher::new() },
        _ => WhereClause::Activity { variable: sv(var), matcher: ObjectMatcher::new() },
    }
}

fn val() -> MutationValue {
    MutationValue::Param(sv("v"))
}

/// `UPDATE ?t <actions> WHERE { <clauses> }`
fn update(actions: Vec<UpdateAction>, clauses: Vec<WhereClause>) -> ManuallyDrop<UpdateStatement> {
    ManuallyDrop::new(UpdateStatement {
        target: ElementRef::Handle(sv("t")),
        expect_version: None,
        actions,
        where_clauses: Some(clauses),
        limit: None,
    })
}

/// `UPDATE ?t SET FIELDS {<name>: :v} WHERE { ?t <KIND> {} }` — rejected by `guard_update`?
fn field_update_rejected(kind: usize, name: &'static str) -> bool {
    stack_vec!(a = [(sv(name), val())]);
    stack_vec!(acts = [UpdateAction::SetFields(a)]);
    stack_vec!(wh = [bind(kind, "t")]);
    guard_update(&update(acts, wh)).is_err()
}

/// One immutable payload field per record kind, bound at the top level of WHERE.
#[kani::proof]
#[kani::unwind(16)]
fn c16_imm_update_fields() {
    assert!(field_update_rejected(ASSERTION, "confidence"), "OBL:C16.imm.update_payload_rejected");
    assert!(field_update_rejected(EVIDENCE, "payload"), "OBL:C16.imm.update_payload_rejected");
    assert!(field_update_rejected(PROPOSITION, "subject"), "OBL:C16.imm.update_payload_rejected");
    // the same name on a CONCEPT is an ordinary field (kml.rs test
    // `update_rejects_immutable_payload`): reachable acceptance
    kani::cover!(!field_update_rejected(CONCEPT, "confidence"), "COVER:concept_accepted");
    kani::cover!(true, "COVER:reach");
}

/// The kind is found when the binding pattern is not the first pattern and when
/// it sits inside OPTIONAL / UNION / NOT (depth 1 and 2), and the immutable
/// field is not the first assignment of the block / the first action.
#[kani::proof]
#[kani::unwind(16)]
fn c16_imm_update_nested() {
    // second pattern of the block
    {
        stack_vec!(a = [(sv("stance"), val())]);
        stack_vec!(acts = [UpdateAction::SetFields(a)]);
        stack_vec!(wh = [bind(CONCEPT, "c"), bind(ASSERTION, "t")]);
        assert!(guard_update(&update(acts, wh)).is_err(), "OBL:C16.imm.update_payload_rejected");
    }
    // inside OPTIONAL
    {
        stack_vec!(a = [(sv("media_type"), val())]);
        stack_vec!(acts = [UpdateAction::SetFields(a)]);
        stack_vec!(inner = [bind(EVIDENCE, "t")]);
        stack_vec!(wh = [WhereClause::Optional(inner)]);
        assert!(guard_update(&update(acts, wh)).is_err(), "OBL:C16.imm.update_payload_rejected");
    }
    // inside UNION, after an ordinary pattern
    {
        stack_vec!(a = [(sv("object"), val())]);
        stack_vec!(acts = [UpdateAction::SetFields(a)]);
        stack_vec!(inner = [bind(PROPOSITION, "t")]);
        stack_vec!(wh = [bind(CONCEPT, "c"), WhereClause::Union(inner)]);
        assert!(guard_update(&update(acts, wh)).is_err(), "OBL:C16.imm.update_payload_rejected");
    }
    // depth 2: NOT { OPTIONAL { ?t ASSERTION } }
    {
        stack_vec!(a = [(sv("mode"), val())]);
        stack_vec!(acts = [UpdateAction::SetFields(a)]);
        stack_vec!(inner2 = [bind(ASSERTION, "t")]);
        stack_vec!(inner1 = [WhereClause::Optional(inner2)]);
        stack_vec!(wh = [WhereClause::Not(inner1)]);
        assert!(guard_update(&update(acts, wh)).is_err(), "OBL:C16.imm.update_payload_rejected");
    }
    // second assignment of the block, in the second action
    {
        stack_vec!(a0 = [(sv("n"), val())]);
        stack_vec!(a = [(sv("n"), val()), (sv("valid_time"), val())]);
        stack_vec!(acts = [UpdateAction::SetAttributes(a0), UpdateAction::SetFields(a)]);
        stack_vec!(wh = [bind(ASSERTION, "t")]);
        assert!(guard_update(&update(acts, wh)).is_err(), "OBL:C16.imm.update_payload_rejected");
    }
    kani::cover!(true, "COVER:reach");
}

/// A target variable bound by TWO patterns of different kinds, the second one in
/// a UNION branch (an alternative: the engine ADDS the branch's solutions,
/// anda_cognitive_nexus kql/mod.rs). With the ASSERTION binding first the
/// rewrite of `confidence` is rejected (obligation). With the CONCEPT binding
/// first, `bound_kind_of` answers Concept and the same rewrite is ACCEPTED by
/// the parser although ?t also ranges over Assertions: recorded as the cover
/// `rebinding_accepted` (an observation for the report, not an obligation —
/// the engine re-checks the element kind at execution, kml/update.rs).
#[kani::proof]
#[kani::unwind(16)]
fn c16_imm_update_rebinding() {
    {
        stack_vec!(a = [(sv("confidence"), val())]);
        stack_vec!(acts = [UpdateAction::SetFields(a)]);
        stack_vec!(branch = [bind(CONCEPT, "t")]);
        stack_vec!(wh = [bind(ASSERTION, "t"), WhereClause::Union(branch)]);
        assert!(guard_update(&update(acts, wh)).is_err(), "OBL:C16.imm.update_payload_rejected");
    }
    {
        stack_vec!(a = [(sv("confidence"), val())]);
        stack_vec!(acts = [UpdateAction::SetFields(a)]);
        stack_vec!(branch = [bind(ASSERTION, "t")]);
        stack_vec!(wh = [bind(CONCEPT, "t"), WhereClause::Union(branch)]);
        kani::cover!(guard_update(&update(acts, wh)).is_ok(), "COVER:rebinding_accepted");
    }
    kani::cover!(true, "COVER:reach");
}

fn set_structural_rejected(kind: usize) -> bool {
    stack_vec!(e = [StructuralEdge { field: SymbolRef::Name(sv("f")), value: val(), options: None }]);
    stack_vec!(acts = [UpdateAction::SetStructural(e)]);
    stack_vec!(wh = [bind(kind, "t")]);
    guard_update(&update(acts, wh)).is_err()
}

fn unset_structural_rejected(kind: usize) -> bool {
    stack_vec!(r = [StructuralRemoval { field: SymbolRef::Name(sv("f")), value: val() }]);
    stack_vec!(acts = [UpdateAction::UnsetStructural(r)]);
    stack_vec!(wh = [bind(kind, "t")]);
    guard_update(&update(acts, wh)).is_err()
}

/// `UPDATE ?t SET|UNSET STRUCTURAL {...} WHERE { ?t <record kind> }` ⇒ rejected
/// (Assertion, Evidence, Proposition, Activity); on a CONCEPT it is reachable.
#[kani::proof]
#[kani::unwind(4)]
fn c16_imm_update_structural() {
    assert!(set_structural_rejected(ASSERTION), "OBL:C16.imm.update_structural_rejected");
    assert!(set_structural_rejected(EVIDENCE), "OBL:C16.imm.update_structural_rejected");
    assert!(set_structural_rejected(PROPOSITION), "OBL:C16.imm.update_structural_rejected");
    assert!(set_structural_rejected(ACTIVITY), "OBL:C16.imm.update_structural_rejected");
    assert!(unset_structural_rejected(ASSERTION), "OBL:C16.imm.update_structural_rejected");
    assert!(unset_structural_rejected(EVIDENCE), "OBL:C16.imm.update_structural_rejected");
    kani::cover!(!set_structural_rejected(CONCEPT), "COVER:concept_accepted");
    kani::cover!(true, "COVER:reach");
}

/// The tree validator applies the guards: `validate_clause` rejects the UPDATE
/// that rewrites Assertion payload and the one that edits Evidence topology.
#[kani::proof]
#[kani::unwind(16)]
#[kani::stub(alloc::fmt::format, stub_format)]
fn c16_imm_clause_applies_guards() {
    {
        stack_vec!(a = [(sv("confidence"), val())]);
        stack_vec!(acts = [UpdateAction::SetFields(a)]);
        stack_vec!(wh = [bind(ASSERTION, "t")]);
        let c = ManuallyDrop::new(MutationClause::Update(ManuallyDrop::into_inner(update(acts, wh))));
        let r = ManuallyDrop::new(validate_clause(&c));
        assert!(r.is_err(), "OBL:C16.imm.clause_applies_guards");
    }
    {
        stack_vec!(e = [StructuralEdge { field: SymbolRef::Name(sv("f")), value: val(), options: None }]);
        stack_vec!(acts = [UpdateAction::SetStructural(e)]);
        stack_vec!(wh = [bind(EVIDENCE, "t")]);
        let c = ManuallyDrop::new(MutationClause::Update(ManuallyDrop::into_inner(update(acts, wh))));
        let r = ManuallyDrop::new(validate_clause(&c));
        assert!(r.is_err(), "OBL:C16.imm.clause_applies_guards");
    }
    kani::cover!(true, "COVER:reach");
}
