//! C16.prot — contract of `is_protected_field` (rs/anda_kip/src/parser/common.rs).
//!
//! Child module of `parser::common` (cfg(kani), scratch copy only). The
//! postcondition is written from the property statement (C16: "engine-owned
//! field (system, governance, space identity and sequence)") and Spec §6.3 /
//! §2.11 — not from `PROTECTED_FIELDS`: the four names are spelled here byte by
//! byte and compared with a hand-written loop, so a name dropped from (or
//! misspelt in) the shipped list is a refutation.
use super::*;

/// Engine-owned names per the property statement.
const SPEC_SYSTEM: &[u8] = b"_system";
const SPEC_GOVERNANCE: &[u8] = b"governance";
const SPEC_SPACE_ID: &[u8] = b"space_id";
const SPEC_SPACE_SEQ: &[u8] = b"space_seq";

fn bytes_eq(a: &[u8], b: &[u8]) -> bool {
    if a.len() != b.len() {
        return false;
    }
    let mut i = 0;
    while i < a.len() {
        if a[i] != b[i] {
            return false;
        }
        i += 1;
    }
    true
}

/// `name` is exactly one of the four engine-owned names (byte-exact: a field
/// whose name differs in case or by one byte is a different, ordinary field).
pub(super) fn spec_protected(name: &str) -> bool {
    let n = name.as_bytes();
    bytes_eq(n, SPEC_SYSTEM)
        || bytes_eq(n, SPEC_GOVERNANCE)
        || bytes_eq(n, SPEC_SPACE_ID)
        || bytes_eq(n, SPEC_SPACE_SEQ)
}

/// C16.prot.iff — `is_protected_field(name)` ⇔ name is engine-owned.
pub(super) fn post_iff(name: &str, r: &bool) -> bool {
    *r == spec_protected(name)
}

pub(super) const MAX_LEN: usize = 12;

/// Every ASCII string of length 0..=12 (the longest engine-owned name has 10
/// bytes, so prefixes, extensions by up to two bytes, case variants, one-byte
/// flips and every other spelling up to that length are all in the domain).
///
/// Harness form (assert after the call), not `proof_for_contract`: measured in this
/// sandbox, the attribute form (`kani::ensures` + `proof_for_contract`) of the same
/// obligation took 247 s for 10 bytes over [a-z_G] (88 s with a loop-free harness
/// and a `==`-based spec) and timed out at 300 s on this domain, against 2.6 s for
/// the harness form (same function, same postcondition; only the form differs).
#[kani::proof]
#[kani::unwind(14)]
fn c16_prot_iff() {
    let buf: [u8; MAX_LEN] = kani::any();
    let len: usize = kani::any();
    kani::assume(len <= MAX_LEN);
    let mut i = 0;
    while i < MAX_LEN {
        kani::assume(buf[i] < 0x80);
        i += 1;
    }
    // ASCII bytes only, so the slice is valid UTF-8.
    let name: &str = unsafe { core::str::from_utf8_unchecked(&buf[..len]) };
    let r = is_protected_field(name);
    assert!(post_iff(name, &r), "OBL:C16.prot.iff");
    kani::cover!(r, "COVER:protected");
    kani::cover!(!r && len == 10, "COVER:ordinary");
    kani::cover!(r && len == 10, "COVER:governance");
    kani::cover!(r && len == 7, "COVER:system");
    kani::cover!(r && len == 8, "COVER:space_id");
    kani::cover!(r && len == 9, "COVER:space_seq");
    kani::cover!(true, "COVER:reach");
}

/// The four names themselves and their nearest spellings, concretely (kept
/// next to the symbolic harness so that the protected side of the iff is also
/// exercised by fully concrete calls — and readable in the evidence).
#[kani::proof]
#[kani::unwind(14)]
fn c16_prot_names() {
    assert!(is_protected_field("_system"), "OBL:C16.prot.engine_names_protected");
    assert!(is_protected_field("governance"), "OBL:C16.prot.engine_names_protected");
    assert!(is_protected_field("space_id"), "OBL:C16.prot.engine_names_protected");
    assert!(is_protected_field("space_seq"), "OBL:C16.prot.engine_names_protected");
    kani::cover!(!is_protected_field("name"), "COVER:ordinary");
    kani::cover!(true, "COVER:reach");
}
