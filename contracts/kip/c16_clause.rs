//! C16.clause — contract of the tree validator `validate_clause` (and of the
//! plan entry point `validate_plan` as far as CBMC reaches) in
//! rs/anda_kip/src/parser/kml.rs.
//!
//! Child module of `parser::kml` (cfg(kani), scratch copy only).
//!
//! Property C16: no command accepted by the tree validator "assigns an
//! engine-owned field (system, governance, space identity and sequence)".
//! Stated on the tree, independently of the validator: an *observer*
//! (`clause_sets_protected` / `clause_unsets_protected`) walks every assignment /
//! unset block of a clause and says whether any key is engine-owned (names
//! spelled here, compared byte by byte). The obligations of every cell are
//!
//!     validate_clause(c) is Ok  ==>  !clause_sets_protected(c)
//!     validate_clause(c) is Ok  ==>  !clause_unsets_protected(c)
//!
//! One harness per (clause family x block) cell. The SHAPE of each cell is
//! concrete (rule 1); the KEY is payload: 10 symbolic ASCII bytes with symbolic
//! length 0..=10 — every spelling of that length, the four engine-owned names
//! included. The trees are built over stack arrays and static string bytes
//! (`Vec::from_raw_parts` / `String::from_raw_parts`, never dropped, never
//! grown; the validator only takes `&`): heap-built trees made CBMC lose
//! constant propagation on enum discriminants and no single cell finished in
//! 10 min, stack-built ones take 15-60 s (units/C16.toml has the numbers).
use super::*;
use core::mem::ManuallyDrop;

pub(super) fn stub_format(_args: core::fmt::Arguments<'_>) -> String {
    String::new()
}

// ---------------------------------------------------------------------------
// heap-free tree construction
// ---------------------------------------------------------------------------

/// A `String` over the bytes of a string literal (read-only use, never dropped).
fn sv(x: &'static str) -> String {
    unsafe { String::from_raw_parts(x.as_ptr() as *mut u8, x.len(), x.len()) }
}

/// `let name: Vec<T>` over a stack array living in the enclosing scope.
macro_rules! stack_vec {
    ($name:ident = [$($e:expr),*]) => {
        let mut buf = ManuallyDrop::new([$($e),*]);
        let $name = unsafe { Vec::from_raw_parts(buf.as_mut_ptr(), buf.len(), buf.len()) };
    };
}

const KEYLEN: usize = 10;

/// A key over `buf`: every ASCII string of 0..=10 bytes.
fn any_key(buf: &mut [u8; KEYLEN]) -> String {
    let len: usize = kani::any();
    kani::assume(len <= KEYLEN);
    let mut i = 0;
    while i < KEYLEN {
        kani::assume(buf[i] < 0x80);
        i += 1;
    }
    unsafe { String::from_raw_parts(buf.as_mut_ptr(), len, KEYLEN) }
}

macro_rules! symbolic_key {
    ($key:ident) => {
        let mut keybuf: [u8; KEYLEN] = kani::any();
        let $key = any_key(&mut keybuf);
    };
}

fn val() -> MutationValue {
    MutationValue::Param(sv("v"))
}

fn facet(values: Assignments) -> FacetAssignment {
    FacetAssignment { facet: SymbolRef::Name(sv("F")), values }
}

fn facet_unset(fields: Vec<String>) -> FacetUnset {
    FacetUnset { facet: SymbolRef::Name(sv("F")), fields }
}

// ---------------------------------------------------------------------------
// the observer (specification side)
// ---------------------------------------------------------------------------

fn bytes_eq(a: &[u8], b: &[u8]) -> bool {
    if a.len() != b.len() {
        return false;
    }
    let mut i = 0;
    while i < a.len() {
        if a[i] != b[i] {
            return false;
        }
        i += 1;
    }
    true
}

/// Engine-owned names per the property statement (system, governance, space
/// identity and sequence), Spec §6.3 / §2.11.
fn spec_protected(name: &str) -> bool {
    let n = name.as_bytes();
    bytes_eq(n, b"_system") || bytes_eq(n, b"governance") || bytes_eq(n, b"space_id") || bytes_eq(n, b"space_seq")
}

fn assignments_name_protected(a: &Assignments) -> bool {
    let mut i = 0;
    while i < a.len() {
        if spec_protected(&a[i].0) {
            return true;
        }
        i += 1;
    }
    false
}

fn opt_assignments_name_protected(a: &Option<Assignments>) -> bool {
    match a {
        Some(a) => assignments_name_protected(a),
        None => false,
    }
}

fn names_name_protected(f: &[String]) -> bool {
    let mut i = 0;
    while i < f.len() {
        if spec_protected(&f[i]) {
            return true;
        }
        i += 1;
    }
    false
}

fn facets_name_protected(f: &[FacetAssignment]) -> bool {
    let mut i = 0;
    while i < f.len() {
        if assignments_name_protected(&f[i].values) {
            return true;
        }
        i += 1;
    }
    false
}

fn facet_unsets_name_protected(f: &[FacetUnset]) -> bool {
    let mut i = 0;
    while i < f.len() {
        if names_name_protected(&f[i].fields) {
            return true;
        }
        i += 1;
    }
    false
}

/// Does any SET block (FIELDS / ATTRIBUTES / FACET / retention values) of the
/// clause name an engine-owned key?
fn clause_sets_protected(c: &MutationClause) -> bool {
    match c {
        MutationClause::CreateConcept(c) => {
            opt_assignments_name_protected(&c.set_fields)
                || opt_assignments_name_protected(&c.set_attributes)
                || facets_name_protected(&c.set_facets)
        }
        MutationClause::UpsertConcept(c) => {
            opt_assignments_name_protected(&c.set_fields)
                || opt_assignments_name_protected(&c.set_attributes)
                || facets_name_protected(&c.set_facets)
        }
        MutationClause::CreateEvidence(c) | MutationClause::CreateAssertion(c) | MutationClause::CreateActivity(c) => {
            opt_assignments_name_protected(&c.set_fields) || facets_name_protected(&c.set_facets)
        }
        MutationClause::Update(c) => {
            let mut i = 0;
            while i < c.actions.len() {
                let hit = match &c.actions[i] {
                    UpdateAction::SetFields(a) | UpdateAction::SetAttributes(a) => assignments_name_protected(a),
                    UpdateAction::SetFacet(f) => assignments_name_protected(&f.values),
                    _ => false,
                };
                if hit {
                    return true;
                }
                i += 1;
            }
            false
        }
        MutationClause::TransitionActivity(c) => opt_assignments_name_protected(&c.set_fields),
        MutationClause::SetRetention(c) => assignments_name_protected(&c.values),
        _ => false,
    }
}

/// Does any UNSET block (ATTRIBUTES / FACET) of the clause name an engine-owned key?
fn clause_unsets_protected(c: &MutationClause) -> bool {
    match c {
        MutationClause::UpsertConcept(c) => {
            (match &c.unset_attributes {
                Some(f) => names_name_protected(f),
                None => false,
            }) || facet_unsets_name_protected(&c.unset_facets)
        }
        MutationClause::Update(c) => {
            let mut i = 0;
            while i < c.actions.len() {
                let hit = match &c.actions[i] {
                    UpdateAction::UnsetAttributes(f) => names_name_protected(f),
                    UpdateAction::UnsetFacet(f) => names_name_protected(&f.fields),
                    _ => false,
                };
                if hit {
                    return true;
                }
                i += 1;
            }
            false
        }
        _ => false,
    }
}

/// The contract of one cell, checked against the real `validate_clause`.
fn check_clause(c: &MutationClause) {
    let sets = clause_sets_protected(c);
    let unsets = clause_unsets_protected(c);
    let r = ManuallyDrop::new(validate_clause(c));
    assert!(r.is_err() || !sets, "OBL:C16.clause.set_protected");
    assert!(r.is_err() || !unsets, "OBL:C16.clause.unset_protected");
    kani::cover!(r.is_ok(), "COVER:ordinary_accepted");
    kani::cover!(r.is_err() && (sets || unsets), "COVER:protected_rejected");
    kani::cover!(true, "COVER:reach");
}

// ---------------------------------------------------------------------------
// clause shapes (everything but the block under test is absent / minimal)
// ---------------------------------------------------------------------------

fn concept_create(
    set_fields: Option<Assignments>,
    set_attributes: Option<Assignments>,
    set_facets: Vec<FacetAssignment>,
) -> ManuallyDrop<MutationClause> {
    ManuallyDrop::new(MutationClause::CreateConcept(ConceptCreate {
        handle: sv("h"),
        r#type: None,
        client_key: None,
        name: None,
        set_fields,
        set_attributes,
        set_facets,
        set_structural: None,
    }))
}

fn record_create(set_fields: Option<Assignments>, set_facets: Vec<FacetAssignment>) -> RecordCreate {
    RecordCreate { handle: sv("h"), client_key: None, set_fields, set_facets, set_structural: None }
}

/// `UPDATE :t <action>` (no WHERE: the target kind is unknown to the parser).
fn update(actions: Vec<UpdateAction>) -> ManuallyDrop<MutationClause> {
    ManuallyDrop::new(MutationClause::Update(UpdateStatement {
        target: ElementRef::Param(sv("t")),
        expect_version: None,
        actions,
        where_clauses: None,
        limit: None,
    }))
}

// ---------------------------------------------------------------------------
// the matrix: clause family x block, symbolic key
// ---------------------------------------------------------------------------

macro_rules! cell {
    ($name:ident, |$key:ident| $build:block) => {
        #[kani::proof]
        #[kani::unwind(12)]
        #[kani::stub(alloc::fmt::format, stub_format)]
        fn $name() {
            symbolic_key!($key);
            $build
        }
    };
}

// CREATE CONCEPT
cell!(c16_clause_create_concept_fields, |key| {
    stack_vec!(a = [(key, val())]);
    check_clause(&concept_create(Some(a), None, Vec::new()));
});
cell!(c16_clause_create_concept_attributes, |key| {
    stack_vec!(a = [(key, val())]);
    check_clause(&concept_create(None, Some(a), Vec::new()));
});
cell!(c16_clause_create_concept_facet, |key| {
    stack_vec!(a = [(key, val())]);
    stack_vec!(f = [facet(a)]);
    check_clause(&concept_create(None, None, f));
});

// UPSERT CONCEPT: not under contract. Measured in this sandbox: validate_clause on
// an UPSERT CONCEPT tree with NO block at all and MATCH absent (an immediate
// rejection in the code) gave no verdict in 300 s even at unwind(2) — CBMC's
// symbolic execution does not prune the call of validate_exact_object_matcher
// and spins in the BTreeMap<String, MatchValue> navigation under the mutual
// recursion of the exact-pattern validators. With MATCH {id: :i} present (needed
// for a cell that is not rejected for another reason) the same happens.

// CREATE EVIDENCE / ASSERTION / ACTIVITY
cell!(c16_clause_create_evidence_fields, |key| {
    stack_vec!(a = [(key, val())]);
    let c = ManuallyDrop::new(MutationClause::CreateEvidence(record_create(Some(a), Vec::new())));
    check_clause(&c);
});
cell!(c16_clause_create_assertion_fields, |key| {
    stack_vec!(a = [(key, val())]);
    let c = ManuallyDrop::new(MutationClause::CreateAssertion(record_create(Some(a), Vec::new())));
    check_clause(&c);
});
cell!(c16_clause_create_activity_fields, |key| {
    stack_vec!(a = [(key, val())]);
    let c = ManuallyDrop::new(MutationClause::CreateActivity(record_create(Some(a), Vec::new())));
    check_clause(&c);
});
cell!(c16_clause_create_evidence_facet, |key| {
    stack_vec!(a = [(key, val())]);
    stack_vec!(f = [facet(a)]);
    let c = ManuallyDrop::new(MutationClause::CreateEvidence(record_create(None, f)));
    check_clause(&c);
});
cell!(c16_clause_create_assertion_facet, |key| {
    stack_vec!(a = [(key, val())]);
    stack_vec!(f = [facet(a)]);
    let c = ManuallyDrop::new(MutationClause::CreateAssertion(record_create(None, f)));
    check_clause(&c);
});
cell!(c16_clause_create_activity_facet, |key| {
    stack_vec!(a = [(key, val())]);
    stack_vec!(f = [facet(a)]);
    let c = ManuallyDrop::new(MutationClause::CreateActivity(record_create(None, f)));
    check_clause(&c);
});

// UPDATE
cell!(c16_clause_update_set_fields, |key| {
    stack_vec!(a = [(key, val())]);
    stack_vec!(acts = [UpdateAction::SetFields(a)]);
    check_clause(&update(acts));
});
cell!(c16_clause_update_set_attributes, |key| {
    stack_vec!(a = [(key, val())]);
    stack_vec!(acts = [UpdateAction::SetAttributes(a)]);
    check_clause(&update(acts));
});
cell!(c16_clause_update_set_facet, |key| {
    stack_vec!(a = [(key, val())]);
    stack_vec!(acts = [UpdateAction::SetFacet(facet(a))]);
    check_clause(&update(acts));
});
cell!(c16_clause_update_unset_attributes, |key| {
    stack_vec!(u = [key]);
    stack_vec!(acts = [UpdateAction::UnsetAttributes(u)]);
    check_clause(&update(acts));
});
cell!(c16_clause_update_unset_facet, |key| {
    stack_vec!(u = [key]);
    stack_vec!(acts = [UpdateAction::UnsetFacet(facet_unset(u))]);
    check_clause(&update(acts));
});

// TRANSITION ACTIVITY / SET RETENTION
cell!(c16_clause_transition_fields, |key| {
    stack_vec!(a = [(key, val())]);
    let c = ManuallyDrop::new(MutationClause::TransitionActivity(TransitionActivity {
        target: ElementRef::Param(sv("t")),
        to: Scalar::Param(sv("s")),
        set_fields: Some(a),
        set_structural: None,
        expect_state: None,
    }));
    check_clause(&c);
});
cell!(c16_clause_retention_values, |key| {
    stack_vec!(a = [(key, val())]);
    let c = ManuallyDrop::new(MutationClause::SetRetention(SetRetention {
        target: ElementRef::Param(sv("t")),
        values: a,
        where_clauses: None,
        limit: None,
        expect_version: None,
    }));
    check_clause(&c);
});

// position variants: the key under test is NOT the first key / block / action
// (the symbolic-key form of this cell — `[(a, v), (key, v)]` — gave no verdict in
// 400 s: the second insertion into the BTreeSet<&str> compares two strings one
// of which is symbolic. Shrunk once: the engine-owned names concretely.)
fn second_key_rejected(name: &'static str) -> bool {
    stack_vec!(a = [(sv("a"), val()), (sv(name), val())]);
    let c = concept_create(None, Some(a), Vec::new());
    let r = ManuallyDrop::new(validate_clause(&c));
    r.is_err()
}

#[kani::proof]
#[kani::unwind(12)]
#[kani::stub(alloc::fmt::format, stub_format)]
fn c16_clause_second_key_a() {
    assert!(second_key_rejected("_system"), "OBL:C16.clause.set_protected");
    kani::cover!(true, "COVER:reach");
}

/// The other three engine-owned names in second position (thorough tier).
#[kani::proof]
#[kani::unwind(12)]
#[kani::stub(alloc::fmt::format, stub_format)]
fn c16_clause_second_key_b() {
    assert!(second_key_rejected("governance"), "OBL:C16.clause.set_protected");
    assert!(second_key_rejected("space_id"), "OBL:C16.clause.set_protected");
    assert!(second_key_rejected("space_seq"), "OBL:C16.clause.set_protected");
    // (no acceptance cover here: two ordinary keys mean two insertions into the
    // BTreeSet<&str>, which gave no verdict in 600 s)
    kani::cover!(true, "COVER:reach");
}
cell!(c16_clause_second_facet, |key| {
    stack_vec!(a1 = [(sv("a"), val())]);
    stack_vec!(a2 = [(key, val())]);
    stack_vec!(f = [facet(a1), facet(a2)]);
    check_clause(&concept_create(None, None, f));
});
cell!(c16_clause_second_action, |key| {
    stack_vec!(a = [(sv("a"), val())]);
    stack_vec!(u = [key]);
    stack_vec!(acts = [UpdateAction::SetAttributes(a), UpdateAction::UnsetAttributes(u)]);
    check_clause(&update(acts));
});

// ---------------------------------------------------------------------------
// PURGE confirmation
// ---------------------------------------------------------------------------

/// `PURGE :t CONFIRM "<confirm>"` with every ASCII confirmation of 0..=6 bytes:
/// accepted only with the exact literal PURGE.
#[kani::proof]
#[kani::unwind(8)]
#[kani::stub(alloc::fmt::format, stub_format)]
fn c16_clause_purge_confirm() {
    let mut buf: [u8; 6] = kani::any();
    let len: usize = kani::any();
    kani::assume(len <= 6);
    let mut i = 0;
    while i < 6 {
        kani::assume(buf[i] < 0x80);
        i += 1;
    }
    let exact = bytes_eq(&buf[..len], b"PURGE");
    let confirm = unsafe { String::from_raw_parts(buf.as_mut_ptr(), len, 6) };
    let c = ManuallyDrop::new(MutationClause::Purge(crate::ast::PurgeStatement {
        target: ElementRef::Param(sv("t")),
        where_clauses: None,
        limit: None,
        reference_policy: None,
        confirm,
    }));
    let r = ManuallyDrop::new(validate_clause(&c));
    assert!(r.is_err() || exact, "OBL:C16.clause.purge_confirm");
    kani::cover!(r.is_ok(), "COVER:confirmed");
    kani::cover!(r.is_err() && len == 5, "COVER:near_miss_rejected");
    kani::cover!(true, "COVER:reach");
}

// ---------------------------------------------------------------------------
// the plan entry point `validate_plan` on injected trees
// ---------------------------------------------------------------------------
// (`validate_command`'s KML arm is the one-line delegation
// `Command::Kml(statement) => kml::validate_plan(statement)`; calling it through a
// `Command` value gave no verdict in 300 s even for the empty plan — the
// cause not established; the `Command` enum is large and niche-encoded — so the
// harnesses call `validate_plan` directly.)

fn plan(clauses: Vec<MutationClause>) -> ManuallyDrop<KmlStatement> {
    ManuallyDrop::new(KmlStatement { explicit_transaction: true, clauses })
}

/// An empty plan is rejected.
#[kani::proof]
#[kani::unwind(2)]
#[kani::stub(alloc::fmt::format, stub_format)]
fn c16_clause_plan_empty() {
    let p = plan(Vec::new());
    let r = ManuallyDrop::new(validate_plan(&p));
    assert!(r.is_err(), "OBL:C16.clause.plan_empty_rejected");
    kani::cover!(true, "COVER:reach");
}

fn archive_param() -> MutationClause {
    MutationClause::Archive(RemovalStatement {
        target: ElementRef::Param(sv("o")),
        where_clauses: None,
        limit: None,
        expect_state: None,
    })
}

/// The plan validator runs the clause validator on EVERY clause: a plan whose
/// second clause is a PURGE with a near-miss confirmation, and a plan whose
/// first clause unsets an engine-owned key, are rejected as a whole.
#[kani::proof]
#[kani::unwind(12)]
#[kani::stub(alloc::fmt::format, stub_format)]
fn c16_clause_plan_every_clause() {
    // second clause: PURGE :t CONFIRM "purge"
    {
        stack_vec!(
            cl = [
                archive_param(),
                MutationClause::Purge(crate::ast::PurgeStatement {
                    target: ElementRef::Param(sv("t")),
                    where_clauses: None,
                    limit: None,
                    reference_policy: None,
                    confirm: sv("purge"),
                })
            ]
        );
        let r = ManuallyDrop::new(validate_plan(&plan(cl)));
        assert!(r.is_err(), "OBL:C16.clause.plan_checks_every_clause");
    }
    // first clause: UPDATE :t UNSET ATTRIBUTES {space_seq}
    {
        stack_vec!(u = [sv("space_seq")]);
        stack_vec!(acts = [UpdateAction::UnsetAttributes(u)]);
        stack_vec!(cl = [ManuallyDrop::into_inner(update(acts)), archive_param()]);
        let r = ManuallyDrop::new(validate_plan(&plan(cl)));
        assert!(r.is_err(), "OBL:C16.clause.plan_checks_every_clause");
    }
    kani::cover!(true, "COVER:reach");
}

/// Second clause: `UPDATE :t SET ATTRIBUTES {_system: :v}` after an acceptable
/// first clause. (Kept apart from the harness above: if a change lets this plan
/// past the clause validator, CBMC does not finish the handle passes over the
/// assignment — measured 860 s without verdict — and the verdict would be lost.)
#[kani::proof]
#[kani::unwind(12)]
#[kani::stub(alloc::fmt::format, stub_format)]
fn c16_clause_plan_second_clause_key() {
    stack_vec!(a = [(sv("_system"), val())]);
    stack_vec!(acts = [UpdateAction::SetAttributes(a)]);
    stack_vec!(cl = [archive_param(), ManuallyDrop::into_inner(update(acts))]);
    let r = ManuallyDrop::new(validate_plan(&plan(cl)));
    assert!(r.is_err(), "OBL:C16.clause.plan_checks_every_clause");
    kani::cover!(true, "COVER:reach");
}

// ---------------------------------------------------------------------------
// handle resolution (needs `--max-field-sensitivity-array-size 4096`, set in
// units/C16.toml: without it the shortest accepted plan ran out of memory)
// ---------------------------------------------------------------------------

fn archive(target: ElementRef) -> MutationClause {
    MutationClause::Archive(RemovalStatement { target, where_clauses: None, limit: None, expect_state: None })
}

fn create_concept_bare(handle: &'static str) -> MutationClause {
    MutationClause::CreateConcept(ConceptCreate {
        handle: sv(handle),
        r#type: None,
        client_key: None,
        name: None,
        set_fields: None,
        set_attributes: None,
        set_facets: Vec::new(),
        set_structural: None,
    })
}

/// A handle that no clause of the plan declares and no WHERE binds is rejected:
/// the one-clause plan `ARCHIVE ?x`.
#[kani::proof]
#[kani::unwind(12)]
#[kani::stub(alloc::fmt::format, stub_format)]
fn c16_clause_plan_unbound_handle() {
    stack_vec!(cl = [archive(ElementRef::Handle(sv("x")))]);
    let r = ManuallyDrop::new(validate_plan(&plan(cl)));
    assert!(r.is_err(), "OBL:C16.clause.unbound_handle_rejected");
    kani::cover!(true, "COVER:reach");
}

/// Likewise `MERGE CONCEPT ?s INTO :k` (thorough tier).
#[kani::proof]
#[kani::unwind(12)]
#[kani::stub(alloc::fmt::format, stub_format)]
fn c16_clause_plan_unbound_merge_source() {
    stack_vec!(
        cl = [MutationClause::MergeConcept(MergeConcept {
            source: ElementRef::Handle(sv("s")),
            into: ElementRef::Param(sv("k")),
            where_clauses: None,
            expect_version: None,
        })]
    );
    let r = ManuallyDrop::new(validate_plan(&plan(cl)));
    assert!(r.is_err(), "OBL:C16.clause.unbound_handle_rejected");
    kani::cover!(true, "COVER:reach");
}

/// `CREATE CONCEPT ?h {} ; ARCHIVE ?x` — declaring one handle does not bind another.
#[kani::proof]
#[kani::unwind(12)]
#[kani::stub(alloc::fmt::format, stub_format)]
fn c16_clause_plan_wrong_handle() {
    stack_vec!(cl = [create_concept_bare("h"), archive(ElementRef::Handle(sv("x")))]);
    let r = ManuallyDrop::new(validate_plan(&plan(cl)));
    assert!(r.is_err(), "OBL:C16.clause.unbound_handle_rejected");
    kani::cover!(true, "COVER:reach");
}

/// A WHERE binds a handle for ITS OWN clause only: `ARCHIVE ?x WHERE { ?x ASSERTION
/// {} } ; ARCHIVE ?x` — the second clause's target is neither created by the plan
/// nor bound by that clause's own WHERE, so the plan must be refused ("leaves a
/// handle unbound"). Added after seed C16a (WHERE variables accumulating across
/// clauses) slipped through.
#[kani::proof]
#[kani::unwind(12)]
#[kani::stub(alloc::fmt::format, stub_format)]
fn c16_clause_plan_where_scope_is_per_clause() {
    stack_vec!(wh = [WhereClause::Assertion { variable: sv("x"), matcher: ObjectMatcher::new() }]);
    stack_vec!(
        cl = [
            MutationClause::Archive(RemovalStatement {
                target: ElementRef::Handle(sv("x")),
                where_clauses: Some(wh),
                limit: None,
                expect_state: None,
            }),
            archive(ElementRef::Handle(sv("x")))
        ]
    );
    let r = ManuallyDrop::new(validate_plan(&plan(cl)));
    assert!(r.is_err(), "OBL:C16.clause.where_binding_is_scoped_to_its_clause");
    kani::cover!(true, "COVER:reach");
}

/// Not everything is rejected by `validate_plan`: the shortest plan
/// `CREATE CONCEPT ?h {}` is accepted (no obligation of C16 asks for acceptance;
/// this is the vacuity guard of the plan-level rejections).
#[kani::proof]
#[kani::unwind(12)]
#[kani::stub(alloc::fmt::format, stub_format)]
fn c16_clause_plan_accepts_minimal() {
    stack_vec!(cl = [create_concept_bare("h")]);
    let r = ManuallyDrop::new(validate_plan(&plan(cl)));
    kani::cover!(r.is_ok(), "COVER:minimal_plan_accepted");
    kani::cover!(true, "COVER:reach");
}

/// A handle bound by the clause's own WHERE is accepted: `ARCHIVE ?x WHERE
/// { ?x ASSERTION {} }`. Cover only: vacuity guard of `unbound_handle_rejected`
/// (thorough tier).
#[kani::proof]
#[kani::unwind(12)]
#[kani::stub(alloc::fmt::format, stub_format)]
fn c16_clause_plan_accepts_where_bound() {
    stack_vec!(wh = [WhereClause::Assertion { variable: sv("x"), matcher: ObjectMatcher::new() }]);
    stack_vec!(
        cl = [MutationClause::Archive(RemovalStatement {
            target: ElementRef::Handle(sv("x")),
            where_clauses: Some(wh),
            limit: None,
            expect_state: None,
        })]
    );
    let r = ManuallyDrop::new(validate_plan(&plan(cl)));
    kani::cover!(r.is_ok(), "COVER:where_bound_accepted");
    kani::cover!(true, "COVER:reach");
}

/// A handle declared by an earlier clause is accepted: `CREATE CONCEPT ?h {} ;
/// ARCHIVE ?h`. Cover only (thorough tier). (Both acceptance covers in ONE
/// harness exceeded the 12 GB memory limit.)
#[kani::proof]
#[kani::unwind(12)]
#[kani::stub(alloc::fmt::format, stub_format)]
fn c16_clause_plan_accepts_plan_bound() {
    stack_vec!(cl = [create_concept_bare("h"), archive(ElementRef::Handle(sv("h")))]);
    let r = ManuallyDrop::new(validate_plan(&plan(cl)));
    kani::cover!(r.is_ok(), "COVER:plan_bound_accepted");
    kani::cover!(true, "COVER:reach");
}
