// C07.trim / C09.trim — the plaintext trimming of `create_decryption_stream`
// (rs/anda_object_store/src/encryption.rs): after a chunk has been decrypted, which
// of its bytes are yielded to the caller. Two statement slices copied verbatim on
// every run: T1 (inside the chunk loop, full-size chunks) and T2 (the short tail
// after the loop). The surrounding `try_stream!` generator cannot be called; the
// slices' free variables are the wrapper parameters.
//
// `chunk` / `buf` are `bytes::BytesMut` in the real code. Here they are an opaque
// `BytesMut` whose three methods carry ASSUMED contracts taken from the `bytes`
// crate's documentation (listed as assumptions): `len`, `Buf::advance` (panics if
// n > len), `truncate` (no-op if n >= len).
// Rewrite applied: `format!(..).into()` -> `verif_opaque()` (error text dropped).
use vstd::prelude::*;

verus! {

global size_of usize == 8;

pub struct Opaque;

pub enum Error {
    Generic { store: &'static str, source: Opaque },
}

pub type Result<T> = std::result::Result<T, Error>;

#[verifier::external_body]
pub fn verif_opaque() -> Opaque {
    Opaque
}

#[verifier::external_body]
pub struct BytesMut {
    v: Vec<u8>,
}

impl BytesMut {
    pub uninterp spec fn view(&self) -> Seq<u8>;

    #[verifier::external_body]
    pub fn len(&self) -> (n: usize)
        ensures n == self.view().len(),
    {
        self.v.len()
    }

    #[verifier::external_body]
    pub fn advance(&mut self, cnt: usize)
        requires cnt <= old(self).view().len(),
        ensures final(self).view() == old(self).view().subrange(cnt as int, old(self).view().len() as int),
    {
        self.v.drain(0..cnt);
    }

    #[verifier::external_body]
    pub fn truncate(&mut self, len: usize)
        ensures
            len < old(self).view().len() ==> final(self).view() == old(self).view().subrange(0, len as int),
            len >= old(self).view().len() ==> final(self).view() == old(self).view(),
    {
        self.v.truncate(len);
    }
}

/// The bytes of this decrypted chunk that belong to the caller's window: skip the
/// in-chunk offset on the first chunk, then at most `remaining` bytes.
pub open spec fn window(plain: Seq<u8>, first: bool, start_offset: int, remaining: int) -> Seq<u8> {
    let o = if first { start_offset } else { 0 };
    let n = if plain.len() - o < remaining { plain.len() - o } else { remaining };
    plain.subrange(o, o + n)
}

/// Slice T1 — one full-size chunk inside the loop.
/// requires: what the loop and C07.span establish (start_offset < chunk_size =
/// chunk.len() on the first chunk; remaining > 0 by the loop condition).
pub fn slice_trim_loop(chunk: BytesMut, idx: usize, start_idx: usize, start_offset: usize, remaining: u64) -> (r: (BytesMut, u64, usize))
    requires
        remaining > 0,
        idx < usize::MAX,
        idx == start_idx ==> start_offset < chunk.view().len(),
    ensures
        r.0.view() == window(chunk.view(), idx == start_idx, start_offset as int, remaining as int),
        r.1 == remaining - r.0.view().len(),
        r.2 == idx + 1,
{
    let ghost plain = chunk.view();
    let mut chunk = chunk;
    let mut remaining = remaining;
    let mut idx = idx;
/*@EXTRACT:trim_loop@*/
    (chunk, remaining, idx)
}

/// Slice T2 — the short tail after the loop (buf holds the last, shorter chunk).
pub fn slice_trim_tail(buf: BytesMut, idx: usize, start_idx: usize, start_offset: usize, remaining: u64) -> (r: Result<(BytesMut, u64)>)
    requires
        remaining > 0,
    ensures
        // succeeds exactly when the tail holds the rest of the window …
        r.is_ok() <==> (if idx == start_idx { start_offset as int } else { 0 }) + remaining <= buf.view().len(),
        // … and then yields exactly those bytes and completes the request
        r matches Ok(y) ==> y.0.view() == window(buf.view(), idx == start_idx, start_offset as int, remaining as int)
            && y.0.view().len() == remaining && y.1 == 0,
{
    let mut buf = buf;
    let mut remaining = remaining;
/*@EXTRACT:trim_tail@*/
    Ok((buf, remaining))
}

} // verus!

fn main() {}
