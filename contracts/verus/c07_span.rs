// C07.span / C09.span — range -> chunk-span arithmetic of `EncryptedStore::get_ranges`
// (slice S2) and `EncryptedStore::get_opts` (slice S1), rs/anda_object_store/src/encryption.rs.
// Every /*@EXTRACT@*/ block is copied verbatim from /repo on every run; nothing is
// rewritten. The surrounding async fns cannot be called; the slices' free variables
// are the wrapper parameters (`meta` is reduced to the one field the slices read).
use vstd::prelude::*;
use vstd::arithmetic::div_mod::*;
use vstd::arithmetic::mul::*;
use std::ops::Range;

verus! {

global size_of usize == 8;

pub struct Metadata {
    pub size: u64,
}

pub open spec fn aligned(x: u64, chunk: u64) -> bool {
    x as int % chunk as int == 0
}

/// What the surrounding code establishes before the slice:
///   chunk_size >= 1          (read_chunk_size: filter(>0) / normalize_chunk_size clamp(1,..) — C07.span.chunk_positive)
///   start < end <= meta.size (validate_ranges' postcondition, C07.ranges.iff)
pub open spec fn pre(start: u64, end: u64, chunk_size: u64, size: u64) -> bool {
    chunk_size >= 1 && start < end && end <= size
}

proof fn span_lemmas(start: u64, end: u64, chunk_size: u64)
    requires
        chunk_size >= 1,
        start < end,
    ensures
        (start / chunk_size) * chunk_size <= start,
        start - (start / chunk_size) * chunk_size < chunk_size,
        ((start / chunk_size) * chunk_size) as int % chunk_size as int == 0,
        (end - 1) as int / chunk_size as int >= start as int / chunk_size as int,
        ((end - 1) as int / chunk_size as int + 1) * chunk_size as int >= end as int,
        (((end - 1) as int / chunk_size as int + 1) * chunk_size as int) % chunk_size as int == 0,
        (start as int / chunk_size as int) * chunk_size as int <= u64::MAX,
{
    let c = chunk_size as int;
    let s = start as int;
    let e1 = (end - 1) as int;
    lemma_fundamental_div_mod(s, c);
    lemma_fundamental_div_mod(e1, c);
    lemma_mod_bound(s, c);
    lemma_mod_bound(e1, c);
    lemma_mul_is_commutative(c, s / c);
    lemma_mul_is_commutative(c, e1 / c);
    lemma_mod_multiples_basic(s / c, c);
    lemma_mod_multiples_basic(e1 / c + 1, c);
    lemma_div_is_ordered(s, e1, c);
    lemma_mul_is_distributive_add_other_way(c, e1 / c, 1);
}

/// Slice S2 (get_ranges): span computation, the assignment of the cached span and
/// the offsets into the decrypted buffer.
pub fn slice_get_ranges_span(start: u64, end: u64, chunk_size: u64, meta: &Metadata) -> (r: (u64, u64, u64, usize, usize))
    requires
        pre(start, end, chunk_size, meta.size),
    ensures
        // the fetched span covers the request and stays inside the object
        r.0 <= start && end <= r.1 && r.1 <= meta.size,
        // whole chunks: starts on a chunk boundary, ends on one or at the object's end
        aligned(r.0, chunk_size),
        aligned(r.1, chunk_size) || r.1 == meta.size,
        // the first chunk index matches the span start (tag/nonce/AAD lookups use first_idx + i)
        r.2 as int * chunk_size as int == r.0 as int,
        // the caller's bytes are an in-bounds sub-slice of the decrypted span
        r.3 as int == start - r.0 && r.4 as int == end - r.0,
        r.3 < r.4 && r.4 as int <= r.1 - r.0,
{
    proof {
        span_lemmas(start, end, chunk_size);
    }
/*@EXTRACT:cached_span_init@*/
/*@EXTRACT:span@*/
/*@EXTRACT:cached_span_assign@*/
/*@EXTRACT:offsets@*/
    (span_start, span_end, first_idx, s, e)
}

/// Slice S1 (get_opts): the checked-ops form. Verus knows nothing about the two
/// un-annotated closures passed to `and_then`, so only the closure-independent
/// facts are stated here; `range.end <= rr.end` for S1 is discharged by Kani on
/// the same slice (bounded, C07.span.s1_covers_request).
pub fn slice_get_opts_span(range: Range<u64>, chunk_size: u64, meta: &Metadata) -> (r: (u64, u64, usize, usize, u64))
    requires
        pre(range.start, range.end, chunk_size, meta.size),
    ensures
        r.0 <= range.start && r.1 <= meta.size,
        aligned(r.0, chunk_size),
        r.2 as int * chunk_size as int == r.0 as int,
        r.3 as int == range.start - r.0 && r.3 < chunk_size,
        r.4 == range.end - range.start,
{
    proof {
        span_lemmas(range.start, range.end, chunk_size);
    }
/*@EXTRACT:s1_span@*/
    let rr = rr_start..rr_end;
    proof {
        let q = range.start as int / chunk_size as int;
        lemma_div_multiples_vanish(q, chunk_size as int);
        lemma_mul_is_commutative(q, chunk_size as int);
    }
/*@EXTRACT:s1_offsets@*/
    (rr_start, rr_end, start_idx, start_offset, size)
}

} // verus!

fn main() {}
