// C07.ranges — `validate_ranges` (rs/anda_object_store/src/lib.rs), body copied
// verbatim from /repo on every run. Rewrites applied by the extractor (recorded
// in the evidence): `format!(..).into()` -> `verif_opaque()` (error TEXT dropped,
// control flow and error variant kept); the `for` header gets a named iterator and
// the loop invariant (ghost only).
use vstd::prelude::*;
use std::ops::Range;

verus! {

pub struct Opaque;

pub enum Error {
    Generic { store: &'static str, source: Opaque },
}

pub type Result<T> = std::result::Result<T, Error>;

#[verifier::external_body]
pub fn verif_opaque() -> Opaque {
    Opaque
}

/// The property's words (C07: "conforming object store"): a multi-range read is
/// admitted iff every range is non-empty and lies inside the object.
pub open spec fn range_ok(r: Range<u64>, len: u64) -> bool {
    r.start < r.end && r.end <= len
}

pub open spec fn all_ok(ranges: Seq<Range<u64>>, len: u64) -> bool {
    forall|i: int| 0 <= i < ranges.len() ==> range_ok(#[trigger] ranges[i], len)
}

pub fn validate_ranges(store: &'static str, ranges: &[Range<u64>], len: u64) -> (r: Result<()>)
    ensures
        r.is_ok() <==> all_ok(ranges@, len),
{
/*@EXTRACT:validate_ranges@*/
}

} // verus!

fn main() {}
