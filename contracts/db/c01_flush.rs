//! C01.flush — the checkpoint protocol of `Collection::flush_inner`
//! (rs/anda_db/src/collection.rs): "after a power loss at any point — including in
//! the middle of a flush — ... every add, update or remove that had returned
//! success is still in effect". A crash cuts the sequence of durable writes one
//! flush issues, so what survives is decided by their ORDER: the mutation-intent
//! log is the commit record and is retired last, indexes are persisted before the
//! metadata that registers them, and the storage checkpoint advances only after
//! the ids bitmap it covers is durable.
//!
//! `flush_inner` is copied VERBATIM — signature and body, every run — into
//! `impl VerifFlushView`; `.await`s stay and are driven by a poll loop of our own.
//! Stand-ins with ASSUMED contracts (each stamps a ghost clock when polled and
//! returns a symbolic Ok / Err): `store_indexes`, `store_metadata`, `store_ids`,
//! `storage.store_metadata`, `clear_mutation_intents`; the three "is anything
//! pending" reads are symbolic. `DBError` is a unit shadow.
use super::*;
use core::cell::Cell;
use core::future::Future;
use core::mem::ManuallyDrop;
use core::task::{Context, Poll, Waker};

fn block_on<T>(fut: impl Future<Output = T>) -> T {
    let mut fut = core::pin::pin!(fut);
    let mut cx = Context::from_waker(Waker::noop());
    loop {
        if let Poll::Ready(v) = fut.as_mut().poll(&mut cx) {
            return v;
        }
    }
}

struct DBError;

#[derive(Default)]
struct Ghost {
    clock: Cell<u8>,
    t_indexes: Cell<u8>,
    t_metadata: Cell<u8>,
    t_ids: Cell<u8>,
    t_checkpoint: Cell<u8>,
    checkpoint_value: Cell<u64>,
    t_intents_cleared: Cell<u8>,
    /// every durable write polled so far returned Ok
    all_ok: Cell<bool>,
    ok_when_intents_cleared: Cell<bool>,
}
impl Ghost {
    fn tick(&self) -> u8 {
        let t = self.clock.get() + 1;
        self.clock.set(t);
        t
    }
}

#[derive(Clone, Copy)]
struct Knobs {
    pending_mutations: bool,
    stale_intents: bool,
    pending_indexes: bool,
    version: u64,
    saved_version: u64,
    indexes: Option<bool>,
    /// Err / Ok(None) (nothing to store) / Ok(Some(check_point))
    metadata: Option<Option<u64>>,
    ids_ok: bool,
    checkpoint_ok: bool,
    clear_ok: bool,
}

struct VerifQueue(bool);
impl VerifQueue {
    fn is_empty(&self) -> bool {
        self.0
    }
}
struct VerifMutex(bool);
impl VerifMutex {
    fn lock(&self) -> VerifQueue {
        VerifQueue(self.0)
    }
}
struct VerifStats {
    version: u64,
}
struct VerifMetadata {
    stats: VerifStats,
}
struct VerifRw(u64);
impl VerifRw {
    fn read(&self) -> VerifMetadata {
        VerifMetadata { stats: VerifStats { version: self.0 } }
    }
}
struct VerifStorage<'g> {
    g: &'g Ghost,
    k: Knobs,
}
impl VerifStorage<'_> {
    async fn store_metadata(&self, check_point: DocumentId, _now_ms: u64) -> Result<(), DBError> {
        self.g.t_checkpoint.set(self.g.tick());
        self.g.checkpoint_value.set(check_point);
        if self.k.checkpoint_ok {
            Ok(())
        } else {
            self.g.all_ok.set(false);
            Err(DBError)
        }
    }
}

struct VerifFlushView<'g> {
    g: &'g Ghost,
    k: Knobs,
    pending_mutations: VerifMutex,
    stale_mutation_intents: VerifMutex,
    metadata: VerifRw,
    last_saved_version: AtomicU64,
    storage: VerifStorage<'g>,
}

#[allow(dead_code)]
impl VerifFlushView<'_> {
    fn has_pending_index_flush(&self) -> bool {
        self.k.pending_indexes
    }
    async fn store_indexes(&self, _now_ms: u64) -> Result<bool, DBError> {
        self.g.t_indexes.set(self.g.tick());
        match self.k.indexes {
            Some(saved) => Ok(saved),
            None => {
                self.g.all_ok.set(false);
                Err(DBError)
            }
        }
    }
    async fn store_metadata(&self, _now_ms: u64) -> Result<Option<DocumentId>, DBError> {
        self.g.t_metadata.set(self.g.tick());
        match self.k.metadata {
            Some(cp) => Ok(cp),
            None => {
                self.g.all_ok.set(false);
                Err(DBError)
            }
        }
    }
    async fn store_ids(&self) -> Result<(), DBError> {
        self.g.t_ids.set(self.g.tick());
        if self.k.ids_ok {
            Ok(())
        } else {
            self.g.all_ok.set(false);
            Err(DBError)
        }
    }
    async fn clear_mutation_intents(&self) -> Result<(), DBError> {
        self.g.t_intents_cleared.set(self.g.tick());
        self.g.ok_when_intents_cleared.set(self.g.all_ok.get());
        if self.k.clear_ok { Ok(()) } else { Err(DBError) }
    }

/*@EXTRACT:flush_inner@*/
}

#[kani::proof]
#[kani::unwind(3)]
fn c01_flush_protocol() {
    let g = Ghost::default();
    g.all_ok.set(true);
    let k = Knobs {
        pending_mutations: kani::any(),
        stale_intents: kani::any(),
        pending_indexes: kani::any(),
        version: kani::any(),
        saved_version: kani::any(),
        indexes: kani::any(),
        metadata: kani::any(),
        ids_ok: kani::any(),
        checkpoint_ok: kani::any(),
        clear_ok: kani::any(),
    };
    let v = ManuallyDrop::new(VerifFlushView {
        g: &g,
        k,
        pending_mutations: VerifMutex(!k.pending_mutations),
        stale_mutation_intents: VerifMutex(!k.stale_intents),
        metadata: VerifRw(k.version),
        last_saved_version: AtomicU64::new(k.saved_version),
        storage: VerifStorage { g: &g, k },
    });
    let r = block_on(v.flush_inner(kani::any()));
    let (ti, tm, tids, tcp, tcl) =
        (g.t_indexes.get(), g.t_metadata.get(), g.t_ids.get(), g.t_checkpoint.get(), g.t_intents_cleared.get());
    // the intent log — the commit record of every acknowledged mutation since the
    // last checkpoint — is retired only after every durable write of this flush
    // returned Ok, and after all of them
    if tcl != 0 {
        assert!(g.ok_when_intents_cleared.get(), "OBL:C01.flush.intents_retired_only_after_everything_is_durable");
        assert!(tm != 0 && tm < tcl && ti < tcl && tids < tcl && tcp < tcl, "OBL:C01.flush.intents_retired_last");
        // a stored checkpoint implies its ids bitmap and checkpoint object were written first
        assert!(!matches!(k.metadata, Some(Some(_))) || (tids != 0 && tcp != 0), "OBL:C01.flush.intents_retired_last");
    }
    // indexes before the metadata that registers them
    assert!(ti == 0 || tm == 0 || ti < tm, "OBL:C01.flush.indexes_before_metadata");
    assert!(!k.pending_indexes || tm == 0 || ti != 0, "OBL:C01.flush.indexes_before_metadata");
    // the storage checkpoint advances only after metadata and the ids bitmap it
    // covers are durable, and to the checkpoint the metadata write reported
    if tcp != 0 {
        assert!(tm != 0 && tm < tids && tids < tcp && k.ids_ok, "OBL:C01.flush.checkpoint_advances_after_ids");
        assert!(k.metadata == Some(Some(g.checkpoint_value.get())), "OBL:C01.flush.checkpoint_is_the_one_metadata_reported");
    }
    // success is reported only if nothing failed
    assert!(r.is_err() || g.all_ok.get(), "OBL:C01.flush.ok_means_every_write_succeeded");
    assert!(r.is_err() || !(k.pending_mutations || k.stale_intents) || (tcl != 0 && k.clear_ok), "OBL:C01.flush.ok_means_every_write_succeeded");
    kani::cover!(r.is_ok() && tcl != 0 && tcp != 0 && ti != 0, "COVER:full_checkpoint");
    kani::cover!(r.is_err() && tcl == 0 && tm != 0, "COVER:failed_before_retiring_intents");
    kani::cover!(matches!(r, Ok(false)) && g.clock.get() == 0, "COVER:nothing_pending");
    kani::cover!(true, "COVER:reach");
}
