//! C01.meta — the two writers of the collection metadata object
//! (`Collection::{store_metadata, store_metadata_unclaimed}`,
//! rs/anda_db/src/collection.rs). Reopening restarts the id allocator from the
//! `max_document_id` this object carries ("an id acknowledged by a flush is never
//! handed to a different document", "the reopened database accepts and persists new
//! writes"), so EVERY metadata object that is written must carry the live allocator
//! value; and a metadata-only write must not claim the flush version, or a later
//! flush would skip persisting the ids bitmap. Added after seed C01b (the unclaimed
//! writer serialising the raw cached struct).
//!
//! Both functions and `Collection::metadata` are copied VERBATIM — signature and
//! body, every run — into a view struct; `.await`s stay and are driven by a poll
//! loop of our own. Stand-ins with ASSUMED contracts: the `RwLock`s (RefCell), the
//! extension gate, `cbor2::to_writer` (records the snapshot it is handed — ghost),
//! `storage.put_bytes` (symbolic Ok / Err), `update_metadata`,
//! `CollectionMetadata` (a shadow with the `stats` fields the bodies mention).
use super::*;
use core::cell::{Cell, RefCell};
use core::future::Future;
use core::mem::ManuallyDrop;
use core::task::{Context, Poll, Waker};

fn block_on<T>(fut: impl Future<Output = T>) -> T {
    let mut fut = core::pin::pin!(fut);
    let mut cx = Context::from_waker(Waker::noop());
    loop {
        if let Poll::Ready(v) = fut.as_mut().poll(&mut cx) {
            return v;
        }
    }
}

#[derive(Clone, Copy)]
struct VerifStats {
    version: u64,
    max_document_id: u64,
    num_documents: u64,
    search_count: u64,
    get_count: u64,
    read_only: bool,
    last_saved: u64,
}
#[derive(Clone, Copy)]
struct CollectionMetadata {
    stats: VerifStats,
}

// ghost: what was serialised for the PUT
static mut VERIF_SERIALISED: u8 = 0;
static mut VERIF_SERIALISED_MAX_ID: u64 = 0;
static mut VERIF_SERIALISED_VERSION: u64 = 0;

#[derive(Debug)]
struct VerifSerError;
impl core::fmt::Display for VerifSerError {
    fn fmt(&self, _f: &mut core::fmt::Formatter<'_>) -> core::fmt::Result {
        Ok(())
    }
}
impl std::error::Error for VerifSerError {}
mod cbor2 {
    pub(super) fn to_writer(value: &super::CollectionMetadata, _out: &mut Vec<u8>) -> Result<(), super::VerifSerError> {
        // SAFETY: one thread (Kani is sequential); by-value accesses only
        unsafe {
            super::VERIF_SERIALISED += 1;
            super::VERIF_SERIALISED_MAX_ID = value.stats.max_document_id;
            super::VERIF_SERIALISED_VERSION = value.stats.version;
        }
        Ok(())
    }
}

struct VerifRw<T>(RefCell<T>);
impl<T> VerifRw<T> {
    fn read(&self) -> core::cell::Ref<'_, T> {
        self.0.borrow()
    }
    fn write(&self) -> core::cell::RefMut<'_, T> {
        self.0.borrow_mut()
    }
}
struct VerifIdx(u64);
impl VerifIdx {
    fn len(&self) -> usize {
        self.0 as usize
    }
}
struct VerifAsyncMutex;
impl VerifAsyncMutex {
    async fn lock(&self) {}
}
struct VerifPayload;
impl From<Vec<u8>> for VerifPayload {
    fn from(v: Vec<u8>) -> Self {
        core::mem::forget(v);
        VerifPayload
    }
}
struct VerifStorage {
    put_ok: bool,
    puts: Cell<u8>,
}
impl VerifStorage {
    async fn put_bytes(&self, _path: &str, _data: VerifPayload, _mode: crate::storage::PutMode) -> Result<ObjectVersion, DBError> {
        self.puts.set(self.puts.get() + 1);
        if self.put_ok {
            Ok(ObjectVersion { e_tag: None, version: None })
        } else {
            Err(DBError::Generic { name: String::new(), source: "verif".into() })
        }
    }
}

struct VerifMetaView {
    name: String,
    metadata: VerifRw<CollectionMetadata>,
    metadata_version: VerifRw<ObjectVersion>,
    max_document_id: AtomicU64,
    doc_ids_index: VerifRw<VerifIdx>,
    search_count: AtomicU64,
    get_count: AtomicU64,
    read_only: AtomicBool,
    database_read_only: Arc<AtomicBool>,
    last_saved_version: AtomicU64,
    extension_write_gate: VerifAsyncMutex,
    storage: VerifStorage,
}

#[allow(dead_code)]
impl VerifMetaView {
    const METADATA_PATH: &'static str = "meta.cbor";
    fn update_metadata<R>(&self, f: impl FnOnce(&mut CollectionMetadata) -> R) -> R {
        f(&mut self.metadata.write())
    }

/*@EXTRACT:metadata@*/

/*@EXTRACT:store_metadata@*/

/*@EXTRACT:store_metadata_unclaimed@*/
}

struct Start {
    live_max_id: u64,
    cached_max_id: u64,
    version: u64,
    saved_version: u64,
}

fn view(put_ok: bool) -> (ManuallyDrop<VerifMetaView>, Start) {
    let s = Start { live_max_id: kani::any(), cached_max_id: kani::any(), version: kani::any(), saved_version: kani::any() };
    let v = ManuallyDrop::new(VerifMetaView {
        name: String::new(),
        // the cached struct holds whatever max_document_id was loaded at open
        metadata: VerifRw(RefCell::new(CollectionMetadata {
            stats: VerifStats {
                version: s.version,
                max_document_id: s.cached_max_id,
                num_documents: 0,
                search_count: 0,
                get_count: 0,
                read_only: kani::any(),
                last_saved: kani::any(),
            },
        })),
        metadata_version: VerifRw(RefCell::new(ObjectVersion { e_tag: None, version: None })),
        max_document_id: AtomicU64::new(s.live_max_id),
        doc_ids_index: VerifRw(RefCell::new(VerifIdx(kani::any()))),
        search_count: AtomicU64::new(0),
        get_count: AtomicU64::new(0),
        read_only: AtomicBool::new(kani::any()),
        database_read_only: Arc::new(AtomicBool::new(kani::any())),
        last_saved_version: AtomicU64::new(s.saved_version),
        extension_write_gate: VerifAsyncMutex,
        storage: VerifStorage { put_ok, puts: Cell::new(0) },
    });
    (v, s)
}

#[kani::proof]
#[kani::unwind(3)]
fn c01_meta_store_metadata() {
    let put_ok: bool = kani::any();
    let (v, s) = view(put_ok);
    let r = ManuallyDrop::new(block_on(v.store_metadata(kani::any())));
    let (n, max_id, ver) = unsafe { (VERIF_SERIALISED, VERIF_SERIALISED_MAX_ID, VERIF_SERIALISED_VERSION) };
    // every metadata object written carries the live allocator value
    assert!(n == 0 || max_id == s.live_max_id, "OBL:C01.meta.persisted_allocator_is_the_live_one");
    assert!(v.storage.puts.get() == 0 || n == 1, "OBL:C01.meta.persisted_allocator_is_the_live_one");
    match &*r {
        // the checkpoint handed to the caller is the allocator value that was persisted
        Ok(Some(cp)) => {
            assert!(put_ok && v.storage.puts.get() == 1 && *cp == max_id && *cp == s.live_max_id, "OBL:C01.meta.checkpoint_is_the_persisted_allocator");
            assert!(v.last_saved_version.load(Ordering::SeqCst) >= ver, "OBL:C01.meta.flush_version_claimed_only_after_a_successful_put");
        }
        // "nothing to store" only when the stored version is already current
        Ok(None) => {
            assert!(v.storage.puts.get() == 0 && s.saved_version >= s.version, "OBL:C01.meta.nothing_to_store_only_if_current");
        }
        Err(_) => {
            assert!(v.last_saved_version.load(Ordering::SeqCst) == s.saved_version, "OBL:C01.meta.flush_version_claimed_only_after_a_successful_put");
        }
    }
    kani::cover!(matches!(&*r, Ok(Some(_))) && s.cached_max_id != s.live_max_id, "COVER:stored_with_stale_cache");
    kani::cover!(matches!(&*r, Ok(None)), "COVER:nothing_to_store");
    kani::cover!(r.is_err(), "COVER:put_failed");
    kani::cover!(true, "COVER:reach");
}

#[kani::proof]
#[kani::unwind(3)]
fn c01_meta_store_metadata_unclaimed() {
    let put_ok: bool = kani::any();
    let (v, s) = view(put_ok);
    let r = ManuallyDrop::new(block_on(v.store_metadata_unclaimed()));
    let (n, max_id) = unsafe { (VERIF_SERIALISED, VERIF_SERIALISED_MAX_ID) };
    assert!(n == 1 && max_id == s.live_max_id, "OBL:C01.meta.persisted_allocator_is_the_live_one");
    // Ok means the snapshot was durably written
    assert!(r.is_err() || (put_ok && v.storage.puts.get() == 1), "OBL:C01.meta.unclaimed_ok_means_written");
    // never claims the flush version: the next flush still persists the ids bitmap
    assert!(v.last_saved_version.load(Ordering::SeqCst) == s.saved_version, "OBL:C01.meta.unclaimed_write_does_not_claim_the_flush_version");
    kani::cover!(r.is_ok() && s.cached_max_id != s.live_max_id, "COVER:stored_with_stale_cache");
    kani::cover!(r.is_err(), "COVER:put_failed");
    kani::cover!(true, "COVER:reach");
}
