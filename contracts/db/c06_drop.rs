//! C06.drop — the sequential kernel of the async `Collection::drop_data`
//! (rs/anda_db/src/collection.rs): "once delete_collection has returned, nothing
//! remains under the collection's storage prefix and no retained handle can
//! recreate anything there".
//!
//! The statements of `drop_data` from its first line to the store of
//! LIFECYCLE_DELETED are copied VERBATIM (every run) into an `async fn` of a view
//! struct; `.await`s stay as they are and are driven by a poll loop of our own
//! (`block_on`). `begin_delete` is the real one (verbatim, also under contract in
//! C06.life). Stand-ins with ASSUMED contracts: the operation gate (a future that
//! suspends once and then records that the exclusive gate was acquired — tokio's
//! RwLock::write_owned is not verified), `Storage::drop_data` (records what it saw
//! when polled, returns a symbolic Ok/Err), `len`, `Instant`.
//! Dropped: logging after the slice; concurrency (one task, Kani is sequential).
use super::*;
use core::future::Future;
use core::mem::ManuallyDrop;
use core::pin::Pin;
use core::task::{Context, Poll, Waker};

/// Shadows std::time::Instant (clock_gettime is a foreign function).
struct Instant;
impl Instant {
    fn now() -> Self {
        Instant
    }
}

/// A future that is Pending exactly once.
struct YieldOnce(bool);
impl Future for YieldOnce {
    type Output = ();
    fn poll(mut self: Pin<&mut Self>, _cx: &mut Context<'_>) -> Poll<()> {
        if self.0 {
            Poll::Ready(())
        } else {
            self.0 = true;
            Poll::Pending
        }
    }
}

fn block_on<T>(fut: impl Future<Output = T>) -> T {
    let mut fut = core::pin::pin!(fut);
    let mut cx = Context::from_waker(Waker::noop());
    loop {
        if let Poll::Ready(v) = fut.as_mut().poll(&mut cx) {
            return v;
        }
    }
}

#[derive(Clone)]
struct VerifGate {
    acquired: Arc<AtomicBool>,
}
struct VerifGateGuard;
impl VerifGate {
    /// ASSUMED: resolves only once every admitted operation has drained.
    async fn write_owned(self) -> VerifGateGuard {
        YieldOnce(false).await;
        self.acquired.store(true, Ordering::SeqCst);
        VerifGateGuard
    }
}

struct VerifStorage {
    gate: Arc<AtomicBool>,
    polled: AtomicBool,
    polled_after_gate: AtomicBool,
    lifecycle_when_polled: AtomicU8,
    lifecycle: Arc<AtomicU8>,
    fails: bool,
}
impl VerifStorage {
    async fn drop_data(&self) -> Result<(), DBError> {
        self.polled.store(true, Ordering::SeqCst);
        self.polled_after_gate
            .store(self.gate.load(Ordering::SeqCst), Ordering::SeqCst);
        self.lifecycle_when_polled
            .store(self.lifecycle.load(Ordering::SeqCst), Ordering::SeqCst);
        YieldOnce(false).await;
        if self.fails {
            Err(DBError::Generic {
                name: String::new(),
                source: "verif".into(),
            })
        } else {
            Ok(())
        }
    }
}

struct VerifDropView {
    name: String,
    read_only: AtomicBool,
    lifecycle: Arc<AtomicU8>,
    operation_gate: VerifGate,
    storage: VerifStorage,
}

/// `self.lifecycle` is an `AtomicU8` in the real struct; here an `Arc<AtomicU8>`
/// (auto-deref: same method calls) so that the storage stand-in can observe it.
#[allow(dead_code, unused_variables)]
impl VerifDropView {
    fn len(&self) -> usize {
        0
    }

/*@EXTRACT:lifecycle_error@*/

/*@EXTRACT:state@*/

/*@EXTRACT:begin_delete@*/

    async fn verif_drop_kernel(&self) -> Result<(), DBError> {
/*@EXTRACT:drop_kernel@*/
        Ok(())
    }
}

fn run(l: u8, fails: bool) -> (ManuallyDrop<VerifDropView>, bool) {
    let gate = Arc::new(AtomicBool::new(false));
    let lifecycle = Arc::new(AtomicU8::new(l));
    let v = ManuallyDrop::new(VerifDropView {
        name: String::new(),
        read_only: AtomicBool::new(false),
        lifecycle: lifecycle.clone(),
        operation_gate: VerifGate {
            acquired: gate.clone(),
        },
        storage: VerifStorage {
            gate,
            polled: AtomicBool::new(false),
            polled_after_gate: AtomicBool::new(false),
            lifecycle_when_polled: AtomicU8::new(0xff),
            lifecycle,
            fails,
        },
    });
    let r = ManuallyDrop::new(block_on(v.verif_drop_kernel()));
    let ok = r.is_ok();
    (v, ok)
}

/// Every lifecycle byte x storage outcome.
#[kani::proof]
#[kani::unwind(6)]
fn c06_drop_kernel() {
    let l: u8 = kani::any();
    let fails: bool = kani::any();
    let (v, ok) = run(l, fails);
    let polled = v.storage.polled.load(Ordering::SeqCst);
    let l2 = v.lifecycle.load(Ordering::SeqCst);
    // objects under the prefix are removed only once the handle refuses every
    // operation (Deleting) and every admitted operation has drained
    assert!(
        !polled || v.storage.polled_after_gate.load(Ordering::SeqCst),
        "OBL:C06.drop.prefix_removed_only_after_drain"
    );
    assert!(
        !polled || v.storage.lifecycle_when_polled.load(Ordering::SeqCst) == LIFECYCLE_DELETING,
        "OBL:C06.drop.prefix_removed_only_while_deleting"
    );
    // Ok means the prefix is gone: either this call removed it or the handle was
    // already Deleted; and the handle ends Deleted
    if ok {
        assert!(
            (polled && !fails) || l == LIFECYCLE_DELETED,
            "OBL:C06.drop.ok_means_prefix_removed"
        );
        assert!(l2 == LIFECYCLE_DELETED, "OBL:C06.drop.ok_means_prefix_removed");
    }
    // Deleted is claimed only after a successful removal
    assert!(
        l2 != LIFECYCLE_DELETED || l == LIFECYCLE_DELETED || (polled && !fails),
        "OBL:C06.drop.deleted_only_after_removal"
    );
    // whatever the outcome, a known state never returns to a writable one
    if l <= LIFECYCLE_POISONED {
        assert!(
            l2 == LIFECYCLE_DELETING || l2 == LIFECYCLE_DELETED,
            "OBL:C06.drop.never_writable_again"
        );
    }
    kani::cover!(ok && polled, "COVER:removed");
    kani::cover!(!ok && polled, "COVER:removal_failed");
    kani::cover!(ok && !polled, "COVER:already_deleted");
    kani::cover!(true, "COVER:reach");
}
