//! C03.idleaf — `Collection::filter_by_id`, the primary-key (`_id`) arm of the
//! filter evaluator (rs/anda_db/src/collection.rs). The method reads nothing of
//! `Collection` but `doc_ids_index` (+ `reserve_hint`); a `Collection` cannot be
//! constructed, so the LEAF ARMS of its body are copied verbatim (every run) into
//! `impl VerifIdView`, whose one field stands in for the real
//! `parking_lot::RwLock<BTreeSet<DocumentId>>` (see `IdIndex`).
//! The wrapper's signature differs from the real one in one type: the candidate set
//! `FxHashSet<DocumentId>` (hashbrown — CBMC cannot build one) is `VecSet`, a
//! Vec-backed set with the same `contains` contract; the body only calls `contains`.
//!
//! Contract (C03): the ids returned are live ∩ candidates ∩ ⟦predicate⟧ members,
//! ascending, without duplicates; and what the caller's truncate cuts out of them is
//! exactly the first `limit` (Ascending) / last `limit` (Descending) elements — all
//! of them for limit 0 — of the full ascending result. (Whether the arm itself stops
//! at `limit` or returns more is not part of the property and not demanded.)
use super::*;
use core::mem::ManuallyDrop;

pub(super) struct VecSet(pub(super) [DocumentId; 2]);
impl VecSet {
    pub(super) fn contains(&self, id: &DocumentId) -> bool {
        self.0[0] == *id || self.0[1] == *id
    }
}

/// Stand-in for `parking_lot::RwLock<BTreeSet<DocumentId>>`: std's BTreeSet search
/// compiles to the `three_way_compare` intrinsic, on which kani-compiler 0.68 panics
/// (intrinsics.rs:243 — the same ICE that keeps BTreeIndex out of reach). `IdIndex`
/// is a sorted, duplicate-free Vec with the ASSUMED contract of the three BTreeSet
/// methods the leaf arms call: `contains`, and `range(bounds)` yielding exactly the
/// members inside the bounds in ascending order as a double-ended iterator.
pub(super) struct IdIndex(Vec<DocumentId>);
impl IdIndex {
    fn contains(&self, id: &DocumentId) -> bool {
        let mut i = 0;
        while i < self.0.len() {
            if self.0[i] == *id {
                return true;
            }
            i += 1;
        }
        false
    }
    fn range<R: core::ops::RangeBounds<DocumentId>>(&self, r: R) -> core::slice::Iter<'_, DocumentId> {
        // std's BTreeSet::range panics on an inverted range; so does the stand-in
        if let (core::ops::Bound::Included(s) | core::ops::Bound::Excluded(s), core::ops::Bound::Included(e) | core::ops::Bound::Excluded(e)) =
            (r.start_bound(), r.end_bound())
        {
            assert!(s <= e, "range start is greater than range end in BTreeSet");
        }
        let mut lo = 0;
        while lo < self.0.len() && !r.contains(&self.0[lo]) {
            // below the range (members are ascending): skip; past it: stop
            let below = match r.start_bound() {
                core::ops::Bound::Included(s) => self.0[lo] < *s,
                core::ops::Bound::Excluded(s) => self.0[lo] <= *s,
                core::ops::Bound::Unbounded => false,
            };
            if !below {
                break;
            }
            lo += 1;
        }
        let mut hi = lo;
        while hi < self.0.len() && r.contains(&self.0[hi]) {
            hi += 1;
        }
        self.0[lo..hi].iter()
    }
}
pub(super) struct ReadLock<T>(T);
impl<T> ReadLock<T> {
    fn read(&self) -> &T {
        &self.0
    }
}

pub(super) struct VerifIdView {
    doc_ids_index: ReadLock<IdIndex>,
}

#[allow(dead_code)]
impl VerifIdView {
    const MAX_RESERVE_HINT: usize = Collection::MAX_RESERVE_HINT;

/*@EXTRACT:reserve_hint@*/

    /// The leaf arms of `filter_by_id` (Eq / Gt / Ge / Lt / Le / Between): the body
    /// from its first statement up to — not including — the `Include` arm, verbatim;
    /// the wrapper supplies the signature (candidate set type: see module docs) and
    /// closes the `match`. The Include / And / Or / Not arms are cut off: compiling
    /// them (hashbrown) makes kani-compiler 0.68 panic (intrinsics.rs:243).
    fn filter_by_id(
        &self,
        query: RangeQuery<DocumentId>,
        candidates: Option<&VecSet>,
        limit: usize,
        order: ScanOrder,
    ) -> Vec<DocumentId> {
/*@EXTRACT:filter_by_id_leaves@*/
            _ => unreachable!(),
        }

        result
    }
}

const LIVE: [DocumentId; 3] = [2, 5, 8];

fn view() -> ManuallyDrop<VerifIdView> {
    let mut s = Vec::with_capacity(4);
    s.push(2);
    s.push(5);
    s.push(8);
    ManuallyDrop::new(VerifIdView { doc_ids_index: ReadLock(IdIndex(s)) })
}

/// kind: 0 Eq(a) 1 Gt(a) 2 Ge(a) 3 Lt(a) 4 Le(a) 5 Between(a,b)
fn pred(kind: u8, a: u64, b: u64, x: u64) -> bool {
    match kind {
        0 => x == a,
        1 => x > a,
        2 => x >= a,
        3 => x < a,
        4 => x <= a,
        _ => a <= b && x >= a && x <= b,
    }
}

fn query(kind: u8, a: u64, b: u64) -> RangeQuery<DocumentId> {
    match kind {
        0 => RangeQuery::Eq(a),
        1 => RangeQuery::Gt(a),
        2 => RangeQuery::Ge(a),
        3 => RangeQuery::Lt(a),
        4 => RangeQuery::Le(a),
        _ => RangeQuery::Between(a, b),
    }
}

/// One leaf kind, one candidate shape (None, or a 2-element set with symbolic
/// members), one limit, both entry points; bounds symbolic over 0..=10 so every
/// position relative to the live ids {2,5,8} is covered.
fn leaf(kind: u8, cand_mode: u8, limit: usize) {
    leaf_at(kind, cand_mode, limit, kani::any(), kani::any());
}

fn leaf_at(kind: u8, cand_mode: u8, limit: usize, a: u64, b: u64) {
    let with_candidates = cand_mode != 0;
    kani::assume(a <= 10 && b <= 10);
    // cand_mode 1: two symbolic members; 2: the concrete set {5, 9} (one live id, one
    // not) — symbolic members under an unbounded range walk exhausted 20 GB
    let (c1, c2): (u64, u64) = if cand_mode == 1 { (kani::any(), kani::any()) } else { (5, 9) };
    kani::assume(c1 <= 10 && c2 <= 10);
    let cand = VecSet([c1, c2]);
    let v = view();
    let mut o = 0;
    while o < 2 {
        let order = if o == 0 { ScanOrder::Ascending } else { ScanOrder::Descending };
        let got = ManuallyDrop::new(v.filter_by_id(
            query(kind, a, b),
            if with_candidates { Some(&cand) } else { None },
            limit,
            order,
        ));
        // the full ascending result, from the property
        let mut full = [0u64; 3];
        let mut n = 0;
        let mut i = 0;
        while i < 3 {
            let x = LIVE[i];
            if pred(kind, a, b, x) && (!with_candidates || cand.contains(&x)) {
                full[n] = x;
                n += 1;
            }
            i += 1;
        }
        // (a) nothing that does not match is ever returned; ascending, no duplicates
        let mut i = 0;
        while i < got.len() {
            let mut member = false;
            let mut j = 0;
            while j < n {
                if full[j] == got[i] {
                    member = true;
                }
                j += 1;
            }
            assert!(member, "OBL:C03.idleaf.only_matching_live_candidates");
            assert!(i == 0 || got[i - 1] < got[i], "OBL:C03.idleaf.ascending_without_duplicates");
            i += 1;
        }
        // (b) the page the caller cuts out of it (the real ScanOrder::truncate, as
        // query_ids_from does) is exactly the requested end of the full result. The
        // arm itself may return more than `limit` — the property does not care.
        let mut page = ManuallyDrop::new({
            let mut v = Vec::with_capacity(4);
            let mut i = 0;
            while i < got.len() {
                v.push(got[i]);
                i += 1;
            }
            v
        });
        order.truncate(&mut page, limit);
        let keep = if limit == 0 || n <= limit { n } else { limit };
        let off = if o == 0 { 0 } else { n - keep };
        assert!(page.len() == keep, "OBL:C03.idleaf.page_is_an_end_of_the_full_result");
        let mut i = 0;
        while i < keep && i < page.len() {
            assert!(page[i] == full[off + i], "OBL:C03.idleaf.page_is_an_end_of_the_full_result");
            i += 1;
        }
        o += 1;
    }
}

/// Unbounded range walks under a candidate set: a walk whose length AND whose
/// pushes are both symbolic exhausted 20 GB, so here the bounds come from a concrete
/// table (every position relative to the live ids) and the two candidates are symbolic.
fn leaf_concrete_bounds(kind: u8, limit: usize) {
    const BOUNDS: [(u64, u64); 6] = [(0, 10), (2, 5), (3, 8), (5, 5), (6, 7), (9, 1)];
    let mut k = 0;
    while k < 6 {
        leaf_at(kind, 1, limit, BOUNDS[k].0, BOUNDS[k].1);
        k += 1;
    }
}

macro_rules! leaf_harness {
    ($name:ident, $kind:expr, $cand:expr, $limit:expr) => {
        #[kani::proof]
        #[kani::unwind(8)]
        fn $name() {
            if $cand == 3 {
                leaf_concrete_bounds($kind, $limit);
            } else {
                leaf($kind, $cand, $limit);
            }
            kani::cover!(true, "COVER:reach");
        }
    };
}

leaf_harness!(c03_idleaf_eq_all, 0, 0, 0);
leaf_harness!(c03_idleaf_eq_cand, 0, 1, 0);
leaf_harness!(c03_idleaf_ge_page1, 2, 0, 1);
leaf_harness!(c03_idleaf_lt_cand_page1, 3, 1, 1);
leaf_harness!(c03_idleaf_le_page2, 4, 0, 2);
leaf_harness!(c03_idleaf_between_page1, 5, 0, 1);
leaf_harness!(c03_idleaf_gt_all, 1, 0, 0);
leaf_harness!(c03_idleaf_between_all, 5, 0, 0);
leaf_harness!(c03_idleaf_ge_cand_page1, 2, 1, 1);
