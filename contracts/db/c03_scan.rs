//! C03.scan — the B-tree field arm of `Collection::filter_by_field_with`
//! (rs/anda_db/src/collection.rs): the visitor closure handed to
//! `try_range_query_ids`, which is called once per matching KEY, in key order,
//! with that key's posting list, until it returns `false`. Its body is copied
//! verbatim on every run (statement slice S8). Composed with the real
//! `ScanOrder::truncate` and the sort of `filter_by_field`, the contract is C03's
//! own sentence: "a bounded query returns exactly the first `limit` / last `limit`
//! elements of that full ascending result, whatever the filter's shape".
//!
//! What the extraction drops / assumes (listed in units/C03.toml):
//!  * `rt` is `anda_db_utils::UniqueVec<u64>` in the real code (hashbrown — out of
//!    CBMC's reach); here it is `VecSink`, which implements UniqueVec's documented
//!    contract (push appends iff absent). The slice only calls `push` and `len`.
//!  * `candidates` is `Option<&FxHashSet<u64>>`; here `Option<&VecSet>` (`contains`).
//!  * the scan driver (`BTreeIndex::range_query_ids`): one call per matching key in
//!    ascending (or, for `descending`, descending) key order, stops on `false`.
use super::*;
use core::mem::ManuallyDrop;

pub(super) struct VecSink(Vec<u64>);
impl VecSink {
    fn push(&mut self, id: u64) -> bool {
        let mut i = 0;
        while i < self.0.len() {
            if self.0[i] == id {
                return false;
            }
            i += 1;
        }
        self.0.push(id);
        true
    }
    fn len(&self) -> usize {
        self.0.len()
    }
}

pub(super) struct VecSet(Vec<u64>);
impl VecSet {
    fn contains(&self, id: &u64) -> bool {
        let mut i = 0;
        while i < self.0.len() {
            if self.0[i] == *id {
                return true;
            }
            i += 1;
        }
        false
    }
}

/// Slice S8: the visitor closure's body. Free variables: rt, ids, candidates, limit.
fn slice_visit(rt: &mut VecSink, ids: &[DocumentId], candidates: Option<&VecSet>, limit: usize) -> bool {
/*@EXTRACT:visit@*/
}

fn sort(v: &mut Vec<u64>) {
    let n = v.len();
    let mut i = 1;
    while i < n {
        let mut j = i;
        while j > 0 && v[j - 1] > v[j] {
            v.swap(j - 1, j);
            j -= 1;
        }
        i += 1;
    }
}

/// The query path for a bare `Filter::Field` on a B-tree index with two matching
/// keys whose posting lists hold one symbolic id each (distinct documents), page
/// size 1: scan (driver model) -> sort (`filter_by_field`) -> real
/// `ScanOrder::truncate` (`query_ids_from`).
fn page_of_two_keys(order: ScanOrder) {
    let a: u64 = kani::any();
    let b: u64 = kani::any();
    kani::assume(a != b);
    // posting lists in ascending KEY order: key1 -> [a], key2 -> [b]
    let lists: [[u64; 1]; 2] = [[a], [b]];
    let limit = 1usize;
    let mut rt = ManuallyDrop::new(VecSink(Vec::with_capacity(4)));
    // scan driver: one call per key in the requested direction, stop on `false`
    let mut k = 0;
    while k < 2 {
        let idx = if order.is_descending() { 1 - k } else { k };
        if !slice_visit(&mut rt, &lists[idx], None, limit) {
            break;
        }
        k += 1;
    }
    let mut result = ManuallyDrop::new(Vec::with_capacity(4));
    let mut i = 0;
    while i < rt.0.len() {
        result.push(rt.0[i]);
        i += 1;
    }
    sort(&mut result);
    order.truncate(&mut result, limit);
    // the property: the full ascending result is [min(a,b), max(a,b)]
    let want = match order {
        ScanOrder::Ascending => if a < b { a } else { b },
        ScanOrder::Descending => if a < b { b } else { a },
    };
    assert!(result.len() == 1 && result[0] == want, "OBL:C03.scan.page_is_an_end_of_the_full_result");
    kani::cover!(a > b, "COVER:ids_against_key_order");
    kani::cover!(true, "COVER:reach");
}

#[kani::proof]
#[kani::unwind(4)]
fn c03_scan_first_page() {
    page_of_two_keys(ScanOrder::Ascending);
}

#[kani::proof]
#[kani::unwind(4)]
fn c03_scan_last_page() {
    page_of_two_keys(ScanOrder::Descending);
}

/// The visitor never emits an id outside `candidates`, never emits one twice, and
/// visits every id of a list it does not cut short (set algebra of the Field arm).
#[kani::proof]
#[kani::unwind(4)]
fn c03_scan_visitor_filters_candidates() {
    let ids: [u64; 2] = [kani::any(), kani::any()];
    let cand = ManuallyDrop::new(VecSet({
        let mut v = Vec::with_capacity(2);
        v.push(kani::any());
        v
    }));
    let mut rt = ManuallyDrop::new(VecSink(Vec::with_capacity(4)));
    let go_on = slice_visit(&mut rt, &ids, Some(&cand), 0);
    assert!(go_on, "OBL:C03.scan.unbounded_scan_never_stops");
    let mut i = 0;
    while i < rt.0.len() {
        assert!(cand.contains(&rt.0[i]), "OBL:C03.scan.only_candidates");
        i += 1;
    }
    let mut j = 0;
    while j < 2 {
        if cand.contains(&ids[j]) {
            assert!(rt.0.len() >= 1 && (rt.0[0] == ids[j] || (rt.0.len() > 1 && rt.0[1] == ids[j])), "OBL:C03.scan.every_matching_candidate_emitted");
        }
        j += 1;
    }
    assert!(rt.0.len() < 2 || rt.0[0] != rt.0[1], "OBL:C03.scan.no_duplicates");
    kani::cover!(rt.0.len() == 1, "COVER:one");
    kani::cover!(true, "COVER:reach");
}
