//! C06.cancel — "dropping a mutating call at any suspension point either leaves no
//! partial effect or poisons the handle" and "no call on [a closed, deleted,
//! poisoned or read-only handle] — including calls that were already queued when
//! the transition began — changes anything stored", for the four mutating entry
//! points every document mutation and checkpoint goes through:
//! `Collection::{add, update, remove, flush}` (rs/anda_db/src/collection.rs).
//!
//! The four wrappers, `mutation_lease` (body), `cancel_guard`, the `CancelGuard`
//! struct with its `disarm` and `Drop`, and the real `ensure_mutable` / `poison` /
//! `lifecycle_error` / `state` are copied VERBATIM (every run) into a view struct;
//! `.await`s stay. The harness polls each future `k` times and then DROPS it —
//! the executor's view of a cancelled request — for every lifecycle byte and flag
//! value, and for every lifecycle transition happening WHILE the call is queued on
//! the operation gate. Stand-ins with ASSUMED contracts: the operation gate (suspends once, then
//! grants), and the four `*_impl` / `flush_inner` bodies (record "started" — the
//! first partial effect —, suspend once, record "completed", return a symbolic
//! result). `Document` is a unit shadow.
use super::*;
use core::cell::Cell;
use core::future::Future;
use core::mem::ManuallyDrop;
use core::pin::Pin;
use core::task::{Context, Poll, Waker};

struct YieldOnce(bool);
impl Future for YieldOnce {
    type Output = ();
    fn poll(mut self: Pin<&mut Self>, _cx: &mut Context<'_>) -> Poll<()> {
        if self.0 {
            Poll::Ready(())
        } else {
            self.0 = true;
            Poll::Pending
        }
    }
}

/// Polls `fut` at most `k` times, then drops it. Some(output) if it completed.
fn poll_then_drop<T>(fut: impl Future<Output = T>, k: u8) -> Option<T> {
    let mut fut = core::pin::pin!(fut);
    let mut cx = Context::from_waker(Waker::noop());
    let mut i = 0;
    while i < k {
        if let Poll::Ready(v) = fut.as_mut().poll(&mut cx) {
            return Some(v);
        }
        i += 1;
    }
    None
}

struct Document;
type Collection = VerifCancelView;
/// Shadow of std BTreeMap for `update`'s parameter (the real one's drop glue — an
/// IntoIter walk — did not finish in 15 min; the wrapper only passes it on).
struct BTreeMap<K, V>(core::marker::PhantomData<(K, V)>);
impl<K, V> BTreeMap<K, V> {
    fn new() -> Self {
        BTreeMap(core::marker::PhantomData)
    }
}

/*@EXTRACT:cancel_guard_struct@*/

/*@EXTRACT:cancel_guard_impl@*/

/*@EXTRACT:cancel_guard_drop@*/

/// The gate stand-in reaches the view through a raw pointer (set once the view sits
/// at its final address; shared `Arc`s here made every harness 10x slower).
#[derive(Clone, Copy)]
struct VerifGate {
    view: *const VerifCancelView,
}
struct VerifLease;
impl VerifGate {
    async fn wait(self) -> VerifLease {
        YieldOnce(false).await;
        // SAFETY: the view outlives every future created from it; one thread
        let v = unsafe { &*self.view };
        // a lifecycle transition (close, delete, poison by another call ...) that
        // happens WHILE this call is queued on the gate
        if let Some(s) = v.transition_while_queued {
            v.lifecycle.store(s, Ordering::SeqCst);
        }
        v.granted.set(true);
        VerifLease
    }
    /// ASSUMED: suspends while a checkpoint / close holds the gate, then grants.
    async fn read_owned(self) -> VerifLease {
        self.wait().await
    }
    async fn write_owned(self) -> VerifLease {
        self.wait().await
    }
}

struct VerifCancelView {
    name: String,
    read_only: AtomicBool,
    database_read_only: Arc<AtomicBool>,
    lifecycle: AtomicU8,
    operation_gate: VerifGate,
    // ghost
    transition_while_queued: Option<u8>,
    granted: Cell<bool>,
    impl_started: Cell<bool>,
    impl_completed: Cell<bool>,
    lifecycle_when_started: Cell<u8>,
    flags_when_started: Cell<bool>,
    impl_fails: bool,
}

#[allow(dead_code)]
impl VerifCancelView {
    async fn body(&self) -> Result<(), DBError> {
        // the first storage / index effect of the operation
        self.impl_started.set(true);
        self.lifecycle_when_started.set(self.lifecycle.load(Ordering::SeqCst));
        self.flags_when_started
            .set(self.read_only.load(Ordering::SeqCst) || self.database_read_only.load(Ordering::SeqCst));
        YieldOnce(false).await;
        self.impl_completed.set(true);
        if self.impl_fails {
            Err(DBError::Generic { name: String::new(), source: "verif".into() })
        } else {
            Ok(())
        }
    }
    async fn add_impl(&self, doc: Document) -> Result<DocumentId, DBError> {
        self.body().await.map(|_| 1)
    }
    async fn update_impl(&self, _id: DocumentId, _fields: BTreeMap<String, Fv>) -> Result<Document, DBError> {
        self.body().await.map(|_| Document)
    }
    async fn remove_impl(&self, _id: DocumentId) -> Result<Option<Document>, DBError> {
        self.body().await.map(|_| None)
    }
    async fn flush_inner(&self, _now_ms: u64) -> Result<bool, DBError> {
        self.body().await.map(|_| true)
    }

    async fn mutation_lease(&self) -> Result<VerifLease, DBError> {
/*@EXTRACT:mutation_lease_body@*/
    }

/*@EXTRACT:lifecycle_error@*/

/*@EXTRACT:ensure_mutable@*/

/*@EXTRACT:state@*/

/*@EXTRACT:poison@*/

/*@EXTRACT:cancel_guard@*/

/*@EXTRACT:add@*/

/*@EXTRACT:update@*/

/*@EXTRACT:remove@*/

/*@EXTRACT:flush@*/
}

fn view(lifecycle: u8, read_only: bool, db_ro: bool, impl_fails: bool, transition: Option<u8>) -> ManuallyDrop<VerifCancelView> {
    let mut v = ManuallyDrop::new(VerifCancelView {
        name: String::new(),
        read_only: AtomicBool::new(read_only),
        database_read_only: Arc::new(AtomicBool::new(db_ro)),
        lifecycle: AtomicU8::new(lifecycle),
        operation_gate: VerifGate { view: core::ptr::null() },
        transition_while_queued: transition,
        granted: Cell::new(false),
        impl_started: Cell::new(false),
        impl_completed: Cell::new(false),
        lifecycle_when_started: Cell::new(0xff),
        flags_when_started: Cell::new(false),
        impl_fails,
    });
    v
}

/// Points the gate at the view once the view is where it will stay.
fn wire(v: &mut ManuallyDrop<VerifCancelView>) {
    let p: *const VerifCancelView = &**v;
    v.operation_gate.view = p;
}

/// What every wrapper must guarantee, whichever way its future ends.
fn check(v: &VerifCancelView, l: u8, transition: Option<u8>, completed: bool, result_ok: bool, is_flush: bool) {
    let l2 = v.lifecycle.load(Ordering::SeqCst);
    // the state the handle was in when the gate was granted (or still is in, if it never was)
    let l = if v.granted.get() { transition.unwrap_or(l) } else { l };
    // the operation body runs only on a handle that is writable AFTER the gate was
    // granted (a call queued behind a close / delete / poison is rejected)
    if v.impl_started.get() {
        assert!(
            v.lifecycle_when_started.get() == LIFECYCLE_ACTIVE && !v.flags_when_started.get(),
            "OBL:C06.cancel.body_runs_only_on_a_writable_handle"
        );
    }
    // dropped between the first effect and completion: the handle is poisoned
    if !completed && v.impl_started.get() && !v.impl_completed.get() {
        assert!(l2 == LIFECYCLE_POISONED, "OBL:C06.cancel.dropped_midway_poisons");
    }
    // dropped before the first effect: nothing happened, nothing is poisoned
    if !v.impl_started.get() {
        assert!(l2 == l, "OBL:C06.cancel.dropped_before_the_first_effect_changes_nothing");
    }
    // a call that ran to completion poisons only as the flush rule says
    if completed && v.impl_completed.get() {
        if is_flush && !result_ok {
            assert!(l2 == LIFECYCLE_POISONED, "OBL:C06.cancel.failed_checkpoint_poisons");
        } else {
            assert!(l2 == l, "OBL:C06.cancel.completed_call_does_not_poison");
        }
    }
}

/// (l, transition) of one harness family: `steady` — any lifecycle byte, nothing
/// happens while the call is queued; `raced` — an Active handle on which any
/// transition (to one of the six stored states or an unknown byte) happens while the
/// call is queued on the gate. (Both dimensions symbolic at once: 670 s per harness.)
fn steady() -> (u8, Option<u8>) {
    (kani::any(), None)
}
fn raced() -> (u8, Option<u8>) {
    let s: u8 = kani::any();
    kani::assume(s <= 6);
    (LIFECYCLE_ACTIVE, Some(s))
}

macro_rules! cancel_harness {
    ($name:ident, $family:ident, $is_flush:expr, |$v:ident| $call:expr) => {
        #[kani::proof]
        #[kani::unwind(5)]
        fn $name() {
            let (ro, dro): (bool, bool) = (kani::any(), kani::any());
            let (l, transition) = $family();
            let k: u8 = kani::any();
            kani::assume(k <= 3);
            let mut $v = view(l, ro, dro, kani::any(), transition);
            wire(&mut $v);
            let out = poll_then_drop($call, k);
            let completed = out.is_some();
            let ok = matches!(&out, Some(Ok(_)));
            core::mem::forget(out);
            check(&$v, l, transition, completed, ok, $is_flush);
            kani::cover!(!completed && $v.impl_started.get(), "COVER:dropped_midway");
            kani::cover!(!completed && !$v.impl_started.get() && k >= 1, "COVER:dropped_while_queued");
            kani::cover!(completed && !ok && !$v.impl_started.get(), "COVER:rejected");
            kani::cover!(true, "COVER:reach");
        }
    };
}

cancel_harness!(c06_cancel_add_steady, steady, false, |v| v.add(Document));
cancel_harness!(c06_cancel_update_steady, steady, false, |v| v.update(1, BTreeMap::new()));
cancel_harness!(c06_cancel_remove_steady, steady, false, |v| v.remove(1));
cancel_harness!(c06_cancel_flush_steady, steady, true, |v| v.flush(0));
cancel_harness!(c06_cancel_add_raced, raced, false, |v| v.add(Document));
cancel_harness!(c06_cancel_update_raced, raced, false, |v| v.update(1, BTreeMap::new()));
cancel_harness!(c06_cancel_remove_raced, raced, false, |v| v.remove(1));
cancel_harness!(c06_cancel_flush_raced, raced, true, |v| v.flush(0));
