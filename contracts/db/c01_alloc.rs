//! C01.alloc — the allocation-watermark arithmetic that makes an acknowledged but
//! not yet flushed `add` recoverable (rs/anda_db/src/collection.rs): the id
//! allocation of `add_impl`, the sequential kernels of the async
//! `ensure_allocation_watermark` (two guards, the target, the publish), the
//! watermark a reopened handle starts from, and the id window the reopen repair
//! scan (`auto_repair_indexes`) probes. All are statement slices copied verbatim on
//! every run into a view struct holding the two atomics they read.
//!
//! C01: "for documents mutated afterwards [after the last flush], every add … that
//! had returned success is still in effect": an add acknowledges only after its
//! document object was written; recovery finds that object iff its id lies in the
//! scanned window. The contract closes the arithmetic: the id handed out is fresh,
//! the watermark persisted BEFORE the document may exist covers it, and the window
//! a later reopen scans — computed from the persisted watermark, the last
//! checkpoint and the metadata maximum — contains it.
//!
//! What the extraction drops (assumptions in units/C01.toml): the PUT of `target`
//! (async; modelled by the `put_ok` flag between the target and publish slices),
//! the order "watermark PUT before the document object PUT" (call order in
//! add_impl), everything the scan does with an id it probes, and concurrency
//! (Kani is sequential; the real code serialises the PUT behind watermark_gate).
use super::*;
use core::mem::ManuallyDrop;

pub(super) struct VerifAllocView {
    max_document_id: AtomicU64,
    durable_alloc_watermark: AtomicU64,
}

#[allow(dead_code, unused_variables)]
impl VerifAllocView {
    const ALLOCATION_WATERMARK_STRIDE: u64 = Collection::ALLOCATION_WATERMARK_STRIDE;

    /// `add_impl`: the id handed to a new document.
    fn verif_allocate(&self) -> DocumentId {
/*@EXTRACT:allocate@*/
        id
    }

    /// `ensure_allocation_watermark` without its awaits. `Ok(Some(t))`: `t` was
    /// PUT and published; `Ok(None)`: already covered; `Err`: the PUT failed and
    /// nothing was published.
    fn verif_ensure(&self, id: DocumentId, put_ok: bool) -> Result<Option<u64>, ()> {
        if self.verif_guards(id) {
            return Ok(None);
        }
/*@EXTRACT:target@*/
        if !put_ok {
            return Err(());
        }
/*@EXTRACT:publish@*/
        Ok(Some(target))
    }

    /// The two identical early-return guards (before and after taking the gate).
    fn verif_guards(&self, id: DocumentId) -> bool {
        let r1: Result<(), DBError> = (|| {
/*@EXTRACT:guard1@*/
            Err(DBError::Generic { name: String::new(), source: "not covered".into() })
        })();
        let r1 = ManuallyDrop::new(r1);
        let r2: Result<(), DBError> = (|| {
/*@EXTRACT:guard2@*/
            Err(DBError::Generic { name: String::new(), source: "not covered".into() })
        })();
        let r2 = ManuallyDrop::new(r2);
        r1.is_ok() || r2.is_ok()
    }

    /// `auto_repair_indexes`: the id window the reopen repair scan probes.
    fn verif_scan_window(&self, check_point: u64) -> core::ops::RangeInclusive<u64> {
/*@EXTRACT:scan_max@*/
/*@EXTRACT:scan_range@*/
        window
    }
}

/// The watermark a reopened handle starts from (field initialiser of `open`).
fn verif_reopen_watermark(alloc_watermark: u64, metadata_max_document_id: u64) -> u64 {
/*@EXTRACT:reopen_watermark@*/
    reopened
}

fn view(max_id: u64, durable: u64) -> VerifAllocView {
    VerifAllocView { max_document_id: AtomicU64::new(max_id), durable_alloc_watermark: AtomicU64::new(durable) }
}

/// ensure_allocation_watermark: after Ok the id is covered by the published
/// watermark and by what was persisted; the watermark never moves backwards; a
/// failed PUT publishes nothing.
#[kani::proof]
#[kani::unwind(2)]
fn c01_alloc_ensure() {
    let max_id: u64 = kani::any();
    let durable: u64 = kani::any();
    let id: u64 = kani::any();
    let put_ok: bool = kani::any();
    let v = view(max_id, durable);
    let r = v.verif_ensure(id, put_ok);
    let durable2 = v.durable_alloc_watermark.load(Ordering::SeqCst);
    assert!(durable2 >= durable, "OBL:C01.alloc.watermark_never_moves_back");
    match r {
        Ok(None) => assert!(id <= durable && durable2 == durable, "OBL:C01.alloc.acknowledged_id_is_covered"),
        Ok(Some(t)) => {
            assert!(id <= durable2, "OBL:C01.alloc.acknowledged_id_is_covered");
            assert!(t >= id && t >= max_id && durable2 >= t, "OBL:C01.alloc.persisted_target_covers_the_id");
        }
        Err(()) => assert!(durable2 == durable && !put_ok, "OBL:C01.alloc.failed_put_publishes_nothing"),
    }
    kani::cover!(matches!(r, Ok(Some(_))), "COVER:published");
    kani::cover!(matches!(r, Ok(None)), "COVER:already_covered");
    kani::cover!(true, "COVER:reach");
}

/// End to end, over all u64 below the overflow corner. State of a live handle that
/// was opened with metadata maximum `m0` and checkpoint `c <= m0`: `max_id >= m0`,
/// published watermark `d`, persisted watermark `p`, tied by the INVARIANT
/// `max(p, m0) == d` (true right after open, where d = max(w0, m0) and p = w0, and
/// preserved by every successful PUT, which sets p = d = target >= m0 — proved
/// below as `persisted_and_published_stay_tied`). From any such state: allocate an
/// id, publish its watermark, write and acknowledge the document, die before any
/// flush, reopen with the same `m0` and `c` — the repair scan's window contains the
/// id. And the id is fresh: above the metadata maximum, so an id a flush has
/// acknowledged (<= the flushed metadata maximum) is never handed out again.
#[kani::proof]
#[kani::unwind(2)]
fn c01_alloc_acknowledged_add_is_scanned_after_reopen() {
    let m0: u64 = kani::any();
    let c: u64 = kani::any();
    let max_id: u64 = kani::any();
    let d: u64 = kani::any();
    let mut p: u64 = kani::any();
    kani::assume(c <= m0 && m0 <= max_id && max_id < u64::MAX - 200 && d < u64::MAX - 200);
    kani::assume((if p > m0 { p } else { m0 }) == d);
    let v = view(max_id, d);
    let id = v.verif_allocate();
    assert!(id > m0 && id > max_id, "OBL:C01.alloc.allocated_id_is_fresh");
    match v.verif_ensure(id, true) {
        Ok(Some(t)) => p = t,
        Ok(None) => {}
        Err(()) => {}
    }
    let d2 = v.durable_alloc_watermark.load(Ordering::SeqCst);
    assert!((if p > m0 { p } else { m0 }) == d2, "OBL:C01.alloc.persisted_and_published_stay_tied");
    // crash before any flush; reopen with the same metadata and checkpoint
    let v2 = view(m0, verif_reopen_watermark(p, m0));
    let window = v2.verif_scan_window(c);
    assert!(window.contains(&id), "OBL:C01.alloc.acknowledged_add_is_in_the_repair_window");
    kani::cover!(id > d, "COVER:crossed_watermark");
    kani::cover!(id <= d, "COVER:under_watermark");
    kani::cover!(true, "COVER:reach");
}

/// The repair window covers (check_point, max(max_id, watermark)] (scanning more is harmless).
#[kani::proof]
#[kani::unwind(2)]
fn c01_alloc_scan_window() {
    let max_id: u64 = kani::any();
    let durable: u64 = kani::any();
    let c: u64 = kani::any();
    kani::assume(c < u64::MAX);
    let v = view(max_id, durable);
    let w = v.verif_scan_window(c);
    let probe: u64 = kani::any();
    let top = if max_id > durable { max_id } else { durable };
    assert!(!(probe > c && probe <= top) || w.contains(&probe), "OBL:C01.alloc.window_covers_checkpoint_to_watermark");
    kani::cover!(w.contains(&probe), "COVER:inside");
    kani::cover!(true, "COVER:reach");
}

/// A reopened handle never starts below the persisted watermark or the metadata maximum.
#[kani::proof]
#[kani::unwind(2)]
fn c01_alloc_reopen_watermark() {
    let (w, m): (u64, u64) = (kani::any(), kani::any());
    let r = verif_reopen_watermark(w, m);
    assert!(r >= w && r >= m && (r == w || r == m), "OBL:C01.alloc.reopen_watermark_covers_both");
    kani::cover!(true, "COVER:reach");
}
