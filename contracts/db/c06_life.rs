//! C06.life — sequential contracts of the lifecycle kernels of `Collection`
//! (rs/anda_db/src/collection.rs). A `Collection` cannot be constructed without
//! the async storage stack, so the six methods that read nothing but the three
//! lifecycle atomics and the name are copied VERBATIM (signature + body, on every
//! run) into `impl VerifCollectionView`, a struct with exactly the fields those
//! bodies mention and the field types of the real struct. The wrapper does not
//! compile if a body starts using another field. Dropped: every other field of
//! `Collection`, every caller, concurrency (Kani is sequential).
use super::*;
use core::mem::ManuallyDrop;

pub(super) struct VerifCollectionView {
    name: String,
    read_only: AtomicBool,
    database_read_only: Arc<AtomicBool>,
    lifecycle: AtomicU8,
}

#[allow(dead_code)]
impl VerifCollectionView {
/*@EXTRACT:lifecycle_error@*/

/*@EXTRACT:ensure_mutable@*/

/*@EXTRACT:state@*/

/*@EXTRACT:is_active_handle@*/

/*@EXTRACT:poison@*/

/*@EXTRACT:set_read_only@*/

/*@EXTRACT:begin_delete@*/

    /// Statement slice of the async `close`: its admission loop (everything before
    /// the first await), verbatim. `*proceeds` is set iff control falls out of the
    /// loop, i.e. close goes on to drain the gate and flush.
    fn verif_close_admission(&self, proceeds: &mut bool) -> Result<(), DBError> {
/*@EXTRACT:close_admission@*/
        *proceeds = true;
        Ok(())
    }

    /// Statement slice of the async `close`: the lifecycle re-check that runs AFTER
    /// the exclusive operation gate has drained every admitted operation, verbatim.
    /// `*proceeds` is set iff close goes on to `flush_inner` (storage writes).
    fn verif_close_post_drain(&self, proceeds: &mut bool) -> Result<(), DBError> {
/*@EXTRACT:close_post_drain@*/
        *proceeds = true;
        Ok(())
    }
}

fn view(lifecycle: u8, read_only: bool, db_ro: bool) -> ManuallyDrop<VerifCollectionView> {
    ManuallyDrop::new(VerifCollectionView {
        name: String::new(),
        read_only: AtomicBool::new(read_only),
        database_read_only: Arc::new(AtomicBool::new(db_ro)),
        lifecycle: AtomicU8::new(lifecycle),
    })
}

fn snap(v: &VerifCollectionView) -> (u8, bool, bool) {
    (
        v.lifecycle.load(Ordering::SeqCst),
        v.read_only.load(Ordering::SeqCst),
        v.database_read_only.load(Ordering::SeqCst),
    )
}

/// ensure_mutable: Ok <=> Active and neither read-only flag; changes nothing.
/// All 256 lifecycle bytes x all flag values.
#[kani::proof]
#[kani::unwind(2)]
fn c06_ensure_mutable() {
    let (l, ro, dro): (u8, bool, bool) = (kani::any(), kani::any(), kani::any());
    let v = view(l, ro, dro);
    let r = ManuallyDrop::new(v.ensure_mutable());
    assert!(r.is_ok() == (l == LIFECYCLE_ACTIVE && !ro && !dro), "OBL:C06.life.ensure_mutable_iff");
    assert!(snap(&v) == (l, ro, dro), "OBL:C06.life.ensure_mutable_frame");
    kani::cover!(r.is_ok(), "COVER:ok");
    kani::cover!(r.is_err() && l == LIFECYCLE_POISONED, "COVER:poisoned_rejected");
    kani::cover!(true, "COVER:reach");
}

/// set_read_only: a handle that is not Active, or whose database is read-only,
/// cannot be made writable again; set_read_only(true) always takes effect;
/// lifecycle and the database flag never change.
#[kani::proof]
#[kani::unwind(2)]
fn c06_set_read_only() {
    let (l, ro, dro): (u8, bool, bool) = (kani::any(), kani::any(), kani::any());
    let arg: bool = kani::any();
    let v = view(l, ro, dro);
    v.set_read_only(arg);
    let (l2, ro2, dro2) = snap(&v);
    assert!(l2 == l && dro2 == dro, "OBL:C06.life.set_read_only_frame");
    if arg {
        assert!(ro2, "OBL:C06.life.set_read_only_true_sticks");
    } else if l != LIFECYCLE_ACTIVE || dro {
        assert!(ro2 == ro, "OBL:C06.life.cannot_reenable");
    }
    // whatever was asked, a non-active / db-read-only handle still rejects writes
    let r = ManuallyDrop::new(v.ensure_mutable());
    assert!(!(l != LIFECYCLE_ACTIVE || dro) || r.is_err(), "OBL:C06.life.cannot_reenable");
    kani::cover!(!arg && l == LIFECYCLE_ACTIVE && !dro && ro && !ro2, "COVER:reenabled_active");
    kani::cover!(!arg && l == LIFECYCLE_CLOSED, "COVER:ignored");
    kani::cover!(true, "COVER:reach");
}

/// poison: Active/Closing become Poisoned; every other state (delete states,
/// Closed, already Poisoned) is preserved; never yields Active; flags untouched.
/// unwind(2) is exact sequentially (the CAS cannot fail without another thread).
#[kani::proof]
#[kani::unwind(2)]
fn c06_poison() {
    let (l, ro, dro): (u8, bool, bool) = (kani::any(), kani::any(), kani::any());
    let v = view(l, ro, dro);
    v.poison("verif");
    let (l2, ro2, dro2) = snap(&v);
    if l == LIFECYCLE_ACTIVE || l == LIFECYCLE_CLOSING {
        assert!(l2 == LIFECYCLE_POISONED, "OBL:C06.life.poison_transitions");
    } else {
        assert!(l2 == l, "OBL:C06.life.poison_preserves_other_states");
    }
    assert!(ro2 == ro && dro2 == dro, "OBL:C06.life.poison_frame");
    let r = ManuallyDrop::new(v.ensure_mutable());
    assert!(r.is_err() || (l != LIFECYCLE_ACTIVE && l != LIFECYCLE_CLOSING), "OBL:C06.life.poisoned_never_writes");
    assert!(r.is_err(), "OBL:C06.life.poisoned_never_writes");
    kani::cover!(l == LIFECYCLE_DELETING && l2 == LIFECYCLE_DELETING, "COVER:delete_preserved");
    kani::cover!(l == LIFECYCLE_ACTIVE, "COVER:active_poisoned");
    kani::cover!(true, "COVER:reach");
}

/// Composite: on a handle that is closed / deleting / deleted / poisoned (or
/// closing), no sequence of up to three of the sequential mutators
/// {set_read_only(b), poison} makes ensure_mutable succeed again.
#[kani::proof]
#[kani::unwind(5)]
fn c06_terminal_is_absorbing() {
    let (l, ro, dro): (u8, bool, bool) = (kani::any(), kani::any(), kani::any());
    kani::assume(l >= LIFECYCLE_CLOSING && l <= LIFECYCLE_POISONED);
    let v = view(l, ro, dro);
    let mut k = 0;
    while k < 3 {
        let op: u8 = kani::any();
        if op == 0 {
            v.set_read_only(kani::any());
        } else {
            v.poison("verif");
        }
        let r = ManuallyDrop::new(v.ensure_mutable());
        assert!(r.is_err(), "OBL:C06.life.terminal_is_absorbing");
        assert!(!v.is_active_handle(), "OBL:C06.life.terminal_is_absorbing");
        k += 1;
    }
    kani::cover!(true, "COVER:reach");
}

/// state()/is_active_handle(): agree with the lifecycle byte on the six states
/// the code ever stores.
#[kani::proof]
#[kani::unwind(2)]
fn c06_state_view() {
    let l: u8 = kani::any();
    kani::assume(l <= LIFECYCLE_POISONED);
    let v = view(l, kani::any(), kani::any());
    let s = v.state();
    assert!((s == CollectionState::Active) == (l == LIFECYCLE_ACTIVE), "OBL:C06.life.state_active_iff");
    assert!(v.is_active_handle() == (l == LIFECYCLE_ACTIVE), "OBL:C06.life.state_active_iff");
    assert!((s == CollectionState::Poisoned) == (l == LIFECYCLE_POISONED), "OBL:C06.life.state_active_iff");
    kani::cover!(true, "COVER:reach");
}

/// close(), admission: only an Active or already-Closing handle goes on to drain
/// and flush (becoming Closing); Closed/Deleted answer Ok without doing anything;
/// Deleting and Poisoned (and any unknown byte) are refused; flags untouched.
#[kani::proof]
#[kani::unwind(3)]
fn c06_close_admission() {
    let (l, ro, dro): (u8, bool, bool) = (kani::any(), kani::any(), kani::any());
    let v = view(l, ro, dro);
    let mut proceeds = false;
    let r = ManuallyDrop::new(v.verif_close_admission(&mut proceeds));
    let (l2, ro2, dro2) = snap(&v);
    assert!(!proceeds || ((l == LIFECYCLE_ACTIVE || l == LIFECYCLE_CLOSING) && l2 == LIFECYCLE_CLOSING), "OBL:C06.life.close_admits_only_active_or_closing");
    assert!(proceeds || l2 == l, "OBL:C06.life.close_admission_frame");
    assert!(ro2 == ro && dro2 == dro, "OBL:C06.life.close_admission_frame");
    assert!(!(l == LIFECYCLE_POISONED || l == LIFECYCLE_DELETING) || !proceeds, "OBL:C06.life.close_refuses_poisoned_and_deleting");
    assert!(!(l == LIFECYCLE_CLOSED || l == LIFECYCLE_DELETED) || !proceeds, "OBL:C06.life.close_is_idempotent_on_closed");
    kani::cover!(proceeds, "COVER:proceeds");
    kani::cover!(r.is_err(), "COVER:refused");
    kani::cover!(true, "COVER:reach");
}

/// close(), after the gate has drained: whatever happened while close was queued
/// (a cancelled mutation poisoned the handle, a delete began), close writes to
/// storage ONLY IF the handle is still Closing — "no call on it, including calls
/// that were already queued when the transition began, changes anything stored".
#[kani::proof]
#[kani::unwind(2)]
fn c06_close_post_drain() {
    let (l, ro, dro): (u8, bool, bool) = (kani::any(), kani::any(), kani::any());
    let v = view(l, ro, dro);
    let mut proceeds = false;
    let r = ManuallyDrop::new(v.verif_close_post_drain(&mut proceeds));
    assert!(!proceeds || l == LIFECYCLE_CLOSING, "OBL:C06.life.queued_close_flushes_only_if_still_closing");
    assert!(!(l == LIFECYCLE_POISONED) || !proceeds, "OBL:C06.life.queued_close_flushes_only_if_still_closing");
    assert!(snap(&v) == (l, ro, dro), "OBL:C06.life.close_post_drain_frame");
    kani::cover!(proceeds, "COVER:proceeds");
    kani::cover!(l == LIFECYCLE_POISONED, "COVER:poisoned_while_queued");
    kani::cover!(true, "COVER:reach");
}

/// begin_delete(): from every state the code stores, admission is closed for good
/// (Deleting or Deleted, read_only set); an unknown byte is refused unchanged.
#[kani::proof]
#[kani::unwind(3)]
fn c06_begin_delete() {
    let (l, ro, dro): (u8, bool, bool) = (kani::any(), kani::any(), kani::any());
    let v = view(l, ro, dro);
    let r = ManuallyDrop::new(v.begin_delete());
    let (l2, ro2, dro2) = snap(&v);
    if l <= LIFECYCLE_POISONED {
        assert!(r.is_err() || l2 == LIFECYCLE_DELETING || l2 == LIFECYCLE_DELETED, "OBL:C06.life.begin_delete_closes_admission");
        assert!(l != LIFECYCLE_DELETED || l2 == LIFECYCLE_DELETED, "OBL:C06.life.begin_delete_closes_admission");
    } else {
        assert!(r.is_ok() || l2 == l, "OBL:C06.life.begin_delete_refuses_unknown_state");
    }
    assert!(dro2 == dro, "OBL:C06.life.begin_delete_closes_admission");
    let w = ManuallyDrop::new(v.ensure_mutable());
    assert!(r.is_err() || w.is_err(), "OBL:C06.life.deleted_never_writes");
    let _ = (ro, ro2);
    kani::cover!(l == LIFECYCLE_POISONED && r.is_ok(), "COVER:poisoned_deletable");
    kani::cover!(true, "COVER:reach");
}

/// Thorough tier: mutator sequences of length 5.
#[kani::proof]
#[kani::unwind(7)]
fn c06_seq5_terminal_is_absorbing() {
    let (l, ro, dro): (u8, bool, bool) = (kani::any(), kani::any(), kani::any());
    kani::assume(l >= LIFECYCLE_CLOSING && l <= LIFECYCLE_POISONED);
    let v = view(l, ro, dro);
    let mut k = 0;
    while k < 5 {
        let op: u8 = kani::any();
        if op == 0 {
            v.set_read_only(kani::any());
        } else {
            v.poison("verif");
        }
        let r = ManuallyDrop::new(v.ensure_mutable());
        assert!(r.is_err(), "OBL:C06.life.terminal_is_absorbing");
        assert!(!v.is_active_handle(), "OBL:C06.life.terminal_is_absorbing");
        k += 1;
    }
    kani::cover!(true, "COVER:reach");
}
