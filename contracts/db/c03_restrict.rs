//! C03.restrict — `Collection::filter_by_field` (rs/anda_db/src/collection.rs), the
//! step that restricts a search's relevance-ordered candidates to a filter's match
//! set: "a search with a filter returns the relevance-ordered candidates restricted
//! to that same match set". Added after seed C03c (the candidate branch handing the
//! caller's `limit` to the inner scan) slipped through.
//!
//! The method is copied VERBATIM (signature and body, every run) into
//! `impl VerifRestrictView`. Stand-ins with ASSUMED contracts:
//! * `filter_by_field_with(filter, candidates, limit, order)` — the evaluator whose
//!   arms are under contract elsewhere (C03.idleaf, C03.scan): returns the matching
//!   ids inside `candidates`, ascending; ALL of them for `limit == 0`, and — this is
//!   what the bounded arms are allowed to do — possibly only the `limit` smallest
//!   (Ascending) / largest (Descending) of them otherwise;
//! * `FxHashSet` — a Vec-backed set (`FromIterator`, `contains`, `len`): hashbrown
//!   is out of CBMC's reach.
use super::*;
use core::mem::ManuallyDrop;

const N: usize = 3;

/// Shadow of rustc_hash::FxHashSet for the two uses in the body.
pub(super) struct FxHashSet<T>(Vec<T>);
impl<T: PartialEq> FxHashSet<T> {
    fn contains(&self, x: &T) -> bool {
        let mut i = 0;
        while i < self.0.len() {
            if self.0[i] == *x {
                return true;
            }
            i += 1;
        }
        false
    }
    fn len(&self) -> usize {
        self.0.len()
    }
}
impl<T: PartialEq> FromIterator<T> for FxHashSet<T> {
    fn from_iter<I: IntoIterator<Item = T>>(iter: I) -> Self {
        let mut v = Vec::with_capacity(N);
        for x in iter {
            v.push(x);
        }
        FxHashSet(v)
    }
}

pub(super) struct VerifRestrictView {
    /// the documents the filter matches, ascending (ghost: what the evaluator knows)
    matching: [DocumentId; N],
    is_match: [bool; N],
    /// whether a bounded evaluation stops early (it may, it need not)
    bounded_arms_stop_early: bool,
}

#[allow(dead_code)]
impl VerifRestrictView {
    fn filter_by_field_with(
        &self,
        filter: Filter,
        candidates: Option<&FxHashSet<DocumentId>>,
        limit: usize,
        order: ScanOrder,
    ) -> Result<Vec<DocumentId>, DBError> {
        core::mem::forget(filter);
        let mut out = Vec::with_capacity(N);
        let mut k = 0;
        while k < N {
            let i = if matches!(order, ScanOrder::Descending) { N - 1 - k } else { k };
            if self.is_match[i] && candidates.is_none_or(|c| c.contains(&self.matching[i])) {
                if limit > 0 && self.bounded_arms_stop_early && out.len() >= limit {
                    break;
                }
                out.push(self.matching[i]);
            }
            k += 1;
        }
        Ok(out)
    }

/*@EXTRACT:filter_by_field@*/
}

fn has(v: &[DocumentId], x: DocumentId) -> bool {
    let mut i = 0;
    while i < v.len() {
        if v[i] == x {
            return true;
        }
        i += 1;
    }
    false
}

/// Three documents, any subset matching the filter; the search hands over its
/// candidates in relevance order `perm` (one harness per permutation: indexing by
/// a symbolic permutation cost 500+ s), any `limit`, either scan order.
fn restrict_case(perm: [usize; N]) {
    let ids: [DocumentId; N] = [10, 20, 30];
    let is_match: [bool; N] = [kani::any(), kani::any(), kani::any()];
    let v = VerifRestrictView { matching: ids, is_match, bounded_arms_stop_early: kani::any() };
    let cands: [DocumentId; N] = [ids[perm[0]], ids[perm[1]], ids[perm[2]]];
    let limit: usize = kani::any();
    let order = if kani::any() { ScanOrder::Ascending } else { ScanOrder::Descending };
    let filter = ManuallyDrop::new(Filter::And(Vec::new()));
    let r = ManuallyDrop::new(v.filter_by_field(ManuallyDrop::into_inner(filter), &cands, limit, order));
    assert!(r.is_ok(), "OBL:C03.restrict.exactly_the_matching_candidates");
    let Ok(got) = &*r else {
        return;
    };
    // exactly the matching candidates ...
    let mut k = 0;
    let mut expected = 0;
    while k < N {
        let m = is_match[perm[k]];
        assert!(has(got, cands[k]) == m, "OBL:C03.restrict.exactly_the_matching_candidates");
        if m {
            expected += 1;
        }
        k += 1;
    }
    assert!(got.len() == expected, "OBL:C03.restrict.exactly_the_matching_candidates");
    // ... in the caller's (relevance) order
    let mut a = 0;
    let mut pos = 0;
    while a < N {
        if is_match[perm[a]] {
            assert!(pos < got.len() && got[pos] == cands[a], "OBL:C03.restrict.keeps_relevance_order");
            pos += 1;
        }
        a += 1;
    }
    kani::cover!(expected == 3 && limit == 1, "COVER:more_matches_than_limit");
    kani::cover!(expected == 0, "COVER:no_match");
    kani::cover!(true, "COVER:reach");
}

macro_rules! restrict_harness {
    ($name:ident, $perm:expr) => {
        #[kani::proof]
        #[kani::unwind(5)]
        // (10 M variables / 43 M clauses from the symbolic-capacity Vec of the body:
        // cadical 350 s, minisat 425 s, kissat > 900 s)
        #[kani::solver(cadical)]
        fn $name() {
            restrict_case($perm);
        }
    };
}
restrict_harness!(c03_restrict_candidates_012, [0, 1, 2]);
restrict_harness!(c03_restrict_candidates_021, [0, 2, 1]);
restrict_harness!(c03_restrict_candidates_102, [1, 0, 2]);
restrict_harness!(c03_restrict_candidates_120, [1, 2, 0]);
restrict_harness!(c03_restrict_candidates_201, [2, 0, 1]);
restrict_harness!(c03_restrict_candidates_210, [2, 1, 0]);
