//! C06.reopen — the retiring-handle kernel of the async
//! `AndaDB::open_collection_with_schema` (rs/anda_db/src/database.rs): "a closed,
//! deleted or poisoned handle cannot be made writable again other than by
//! reopening the collection ... reopening then yields a state satisfying C01 and
//! C02". Reopening loads a fresh generation over the same storage prefix; the
//! generation it replaces must be quiescent first (a poisoned one: every admitted
//! operation drained; any other: closed), and must leave the registry.
//!
//! The statements from `let retiring = ...` to the end of the `if let Some(..)`
//! block are copied VERBATIM (every run) into an `async fn` of a view struct;
//! `.await`s stay as they are and are driven by a poll loop of our own. Stand-ins
//! with ASSUMED contracts: the registry map (one slot), its lock (RefCell),
//! `Collection::{is_active_handle,is_poisoned}` (symbolic flags; the real ones are
//! under contract in C06.life), `Collection::drain_operations` / `close` (futures
//! that suspend once, then record completion). Dropped: everything before and
//! after the slice (name lock, tombstone check, the fresh load), concurrency.
use super::*;
use core::cell::{Cell, RefCell};
use core::future::Future;
use core::mem::ManuallyDrop;
use core::pin::Pin;
use core::task::{Context, Poll, Waker};

struct YieldOnce(bool);
impl Future for YieldOnce {
    type Output = ();
    fn poll(mut self: Pin<&mut Self>, _cx: &mut Context<'_>) -> Poll<()> {
        if self.0 {
            Poll::Ready(())
        } else {
            self.0 = true;
            Poll::Pending
        }
    }
}

fn block_on<T>(fut: impl Future<Output = T>) -> T {
    let mut fut = core::pin::pin!(fut);
    let mut cx = Context::from_waker(Waker::noop());
    loop {
        if let Poll::Ready(v) = fut.as_mut().poll(&mut cx) {
            return v;
        }
    }
}

struct VerifRefused;

struct VerifColl {
    active: bool,
    poisoned: bool,
    close_refuses: bool,
    drained: Cell<bool>,
    closed: Cell<bool>,
}
struct VerifDrainGuard;
impl VerifColl {
    fn is_active_handle(&self) -> bool {
        self.active
    }
    fn is_poisoned(&self) -> bool {
        self.poisoned
    }
    /// ASSUMED: resolves only once every admitted operation has drained.
    async fn drain_operations(&self) -> VerifDrainGuard {
        YieldOnce(false).await;
        self.drained.set(true);
        VerifDrainGuard
    }
    /// ASSUMED: Ok only once the handle is drained, flushed and Closed.
    async fn close(&self) -> Result<(), VerifRefused> {
        YieldOnce(false).await;
        if self.close_refuses {
            return Err(VerifRefused);
        }
        self.drained.set(true);
        self.closed.set(true);
        Ok(())
    }
}

struct VerifMap {
    slot: Option<Arc<VerifColl>>,
}
impl VerifMap {
    fn get(&self, _name: &String) -> Option<&Arc<VerifColl>> {
        self.slot.as_ref()
    }
    fn remove(&mut self, _name: &String) -> Option<Arc<VerifColl>> {
        self.slot.take()
    }
}
struct VerifLock(RefCell<VerifMap>);
impl VerifLock {
    fn read(&self) -> core::cell::Ref<'_, VerifMap> {
        self.0.borrow()
    }
    fn write(&self) -> core::cell::RefMut<'_, VerifMap> {
        self.0.borrow_mut()
    }
}
struct VerifInner {
    collections: VerifLock,
}
struct VerifDb {
    inner: VerifInner,
}

/// How the slice ends when it does not hand a handle out.
enum VerifStop {
    /// `close().await?` propagated an error
    Refused,
    /// control fell out of the slice: the fresh generation is loaded next
    FreshLoad,
}
impl From<VerifRefused> for VerifStop {
    fn from(_: VerifRefused) -> Self {
        VerifStop::Refused
    }
}

#[allow(unused_variables)]
impl VerifDb {
    async fn verif_retire_kernel(&self, name: String) -> Result<Arc<VerifColl>, VerifStop> {
/*@EXTRACT:retire_kernel@*/
        Err(VerifStop::FreshLoad)
    }
}

/// Every registry content (empty / active / poisoned / other) x close outcome.
#[kani::proof]
#[kani::unwind(6)]
fn c06_reopen_retire_kernel() {
    let registered: bool = kani::any();
    let active: bool = kani::any();
    let poisoned: bool = kani::any();
    let close_refuses: bool = kani::any();
    // is_active_handle <=> lifecycle == Active, is_poisoned <=> lifecycle == Poisoned
    kani::assume(!(active && poisoned));
    let coll = Arc::new(VerifColl {
        active,
        poisoned,
        close_refuses,
        drained: Cell::new(false),
        closed: Cell::new(false),
    });
    let db = ManuallyDrop::new(VerifDb {
        inner: VerifInner {
            collections: VerifLock(RefCell::new(VerifMap {
                slot: if registered { Some(coll.clone()) } else { None },
            })),
        },
    });
    let r = ManuallyDrop::new(block_on(db.verif_retire_kernel(String::new())));
    let still_registered = db.inner.collections.read().slot.is_some();
    match &*r {
        Err(VerifStop::FreshLoad) => {
            if registered {
                // the generation being replaced is quiescent before a fresh one is
                // loaded over the same storage prefix
                assert!(coll.drained.get(), "OBL:C06.reopen.replaced_generation_is_drained_first");
                assert!(poisoned || coll.closed.get(), "OBL:C06.reopen.unpoisoned_generation_is_closed_first");
                // and is no longer handed out by the registry
                assert!(!still_registered, "OBL:C06.reopen.replaced_generation_leaves_the_registry");
            }
        }
        Ok(h) => {
            // reopening after a poison never yields the poisoned generation itself
            assert!(Arc::ptr_eq(h, &coll) && !poisoned, "OBL:C06.reopen.poisoned_handle_is_never_handed_out");
        }
        Err(VerifStop::Refused) => {}
    }
    kani::cover!(matches!(&*r, Err(VerifStop::FreshLoad)) && registered && poisoned, "COVER:poisoned_retired");
    kani::cover!(matches!(&*r, Err(VerifStop::FreshLoad)) && registered && !poisoned, "COVER:closed_retired");
    kani::cover!(matches!(&*r, Err(VerifStop::FreshLoad)) && !registered, "COVER:nothing_registered");
    kani::cover!(r.is_ok(), "COVER:handed_out");
    kani::cover!(matches!(&*r, Err(VerifStop::Refused)), "COVER:close_refused");
    kani::cover!(true, "COVER:reach");
}
