//! C03.trunc / C03.desc / C03.page — page selection of bounded queries
//! (rs/anda_db/src/collection.rs): `ScanOrder::truncate`, `ScanOrder::is_descending`
//! and the limit handling of `Collection::query_ids_from` (statement slice S5,
//! copied verbatim on every run into an `impl Collection` block so
//! `Self::MAX_SEARCH_LIMIT` resolves). Written from the property: "a bounded query
//! returns exactly the first `limit` (smallest-id entry point) or last `limit`
//! (largest-id entry point) elements of that full ascending result".
use super::*;
use core::mem::ManuallyDrop;

impl Collection {
    /// Slice S5: `if limit == Some(0) { return Ok(Vec::new()); } let limit = …clamp…;`
    /// Free variable: `limit`. `Err(l)` carries the effective limit out of the slice.
    fn verif_slice_page_limit(limit: Option<usize>) -> Result<Vec<DocumentId>, usize> {
/*@EXTRACT:page_limit@*/
        Err(limit)
    }
}

/// The effective page size: Some(0) answers with an empty page; otherwise the
/// requested limit, defaulted and clamped to MAX_SEARCH_LIMIT, never 0 (0 would
/// mean "unbounded" to the scan and to truncate). Full Option<usize> domain.
#[kani::proof]
#[kani::unwind(2)]
fn c03_page_limit() {
    let limit: Option<usize> = kani::any();
    let r = ManuallyDrop::new(Collection::verif_slice_page_limit(limit));
    match (&*r, limit) {
        (Ok(v), _) => {
            assert!(limit == Some(0) && v.is_empty(), "OBL:C03.page.zero_limit_is_empty_page");
        }
        (Err(l), Some(n)) => {
            assert!(n != 0, "OBL:C03.page.zero_limit_is_empty_page");
            assert!(*l == if n < 1000 { n } else { 1000 }, "OBL:C03.page.effective_limit");
            assert!(*l >= 1, "OBL:C03.page.effective_limit_positive");
        }
        (Err(l), None) => {
            assert!(*l == 1000, "OBL:C03.page.effective_limit");
            assert!(*l >= 1, "OBL:C03.page.effective_limit_positive");
        }
    }
    kani::cover!(matches!((&*r, limit), (Err(_), Some(_))), "COVER:bounded");
    kani::cover!(r.is_ok(), "COVER:empty_page");
    kani::cover!(true, "COVER:reach");
}

#[kani::proof]
#[kani::unwind(2)]
fn c03_is_descending() {
    assert!(ScanOrder::Descending.is_descending(), "OBL:C03.desc.iff");
    assert!(!ScanOrder::Ascending.is_descending(), "OBL:C03.desc.iff");
    kani::cover!(true, "COVER:reach");
}

fn cell(order: ScanOrder, len: usize, req: Option<usize>) {
    // the full ascending match set (contents symbolic: truncate must not look at them)
    let mut v: Vec<DocumentId> = Vec::with_capacity(len);
    let mut i = 0;
    while i < len {
        v.push(kani::any());
        i += 1;
    }
    let old = ManuallyDrop::new(v.clone());
    let mut v = ManuallyDrop::new(v);
    // effective limit exactly as query_ids_from computes it (slice S5)
    let eff = match ManuallyDrop::new(Collection::verif_slice_page_limit(req)).as_ref() {
        Ok(_) => return,
        Err(l) => *l,
    };
    order.truncate(&mut v, eff);
    // the property's own words
    let want = match req {
        None => 1000,
        Some(n) => if n < 1000 { n } else { 1000 },
    };
    let keep = if len <= want { len } else { want };
    assert!(v.len() == keep, "OBL:C03.trunc.page_length");
    let off = match order {
        ScanOrder::Ascending => 0,
        ScanOrder::Descending => len - keep,
    };
    let mut i = 0;
    while i < keep {
        match order {
            ScanOrder::Ascending => assert!(v[i] == old[off + i], "OBL:C03.trunc.ascending_keeps_first"),
            ScanOrder::Descending => assert!(v[i] == old[off + i], "OBL:C03.trunc.descending_keeps_last"),
        }
        i += 1;
    }
}

const LIMITS: [Option<usize>; 9] =
    [None, Some(1), Some(2), Some(3), Some(4), Some(5), Some(7), Some(1001), Some(usize::MAX)];

/// Concrete (order, len, requested limit) grid, symbolic u64 contents:
/// len 0..=6 x 9 requested limits x both entry points.
#[kani::proof]
#[kani::unwind(11)]
fn c03_trunc_grid_ascending() {
    let mut len = 0;
    while len <= 6 {
        let mut k = 0;
        while k < 9 {
            cell(ScanOrder::Ascending, len, LIMITS[k]);
            k += 1;
        }
        len += 1;
    }
    kani::cover!(true, "COVER:reach");
}

#[kani::proof]
#[kani::unwind(11)]
fn c03_trunc_grid_descending() {
    let mut len = 0;
    while len <= 6 {
        let mut k = 0;
        while k < 9 {
            cell(ScanOrder::Descending, len, LIMITS[k]);
            k += 1;
        }
        len += 1;
    }
    kani::cover!(true, "COVER:reach");
}

/// truncate's own convention: limit 0 means unbounded (used by query_all_ids).
#[kani::proof]
#[kani::unwind(8)]
fn c03_trunc_zero_is_unbounded() {
    let mut len = 0;
    while len <= 4 {
        let mut v: Vec<DocumentId> = Vec::with_capacity(len);
        let mut i = 0;
        while i < len {
            v.push(kani::any());
            i += 1;
        }
        let old = ManuallyDrop::new(v.clone());
        let mut v = ManuallyDrop::new(v);
        ScanOrder::Descending.truncate(&mut v, 0);
        ScanOrder::Ascending.truncate(&mut v, 0);
        assert!(v.len() == len, "OBL:C03.trunc.zero_is_unbounded");
        let mut i = 0;
        while i < len {
            assert!(v[i] == old[i], "OBL:C03.trunc.zero_is_unbounded");
            i += 1;
        }
        len += 1;
    }
    kani::cover!(true, "COVER:reach");
}

/// Thorough tier: the same grid up to len 10 (limits incl. 9, 10, 11).
const LIMITS_T: [Option<usize>; 6] = [Some(6), Some(8), Some(9), Some(10), Some(11), Some(1000)];

#[kani::proof]
#[kani::unwind(13)]
fn c03_trunc_grid_thorough() {
    let mut len = 7;
    while len <= 10 {
        let mut k = 0;
        while k < 6 {
            cell(ScanOrder::Ascending, len, LIMITS_T[k]);
            cell(ScanOrder::Descending, len, LIMITS_T[k]);
            k += 1;
        }
        len += 1;
    }
    kani::cover!(true, "COVER:reach");
}
